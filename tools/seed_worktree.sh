#!/usr/bin/env bash
# usage: seed_worktree.sh <prefix> <id>...   creates /tmp/<prefix>-<id> (detached worktree of /repo HEAD, with a copy of
# /repo/target so that only bevy_cobweb itself is rebuilt, and a [[test]] seed_demo entry) and /tmp/<prefix>-<id>-out.
# Remove with: git -C /repo worktree remove --force /tmp/<prefix>-<id>; rm -rf /tmp/<prefix>-<id>-out
set -eu
pfx="$1"; shift
for id in "$@"; do
  W="/tmp/$pfx-$id"
  [ -d "$W" ] && { echo "$W exists"; continue; }
  git -C /repo worktree add --detach "$W" HEAD >/dev/null 2>&1
  [ -d /repo/target ] && cp -r /repo/target "$W/target"
  printf '\n[[test]]\nname = "seed_demo"\npath = "tests/seed_demo.rs"\ndoctest = false\n' >> "$W/Cargo.toml"
  printf '// demonstration test goes here\n' > "$W/tests/seed_demo.rs"
  mkdir -p "$W-out"
  echo "$W ready"
done
