#!/usr/bin/env bash
# Usage: tools/mutant_regress.sh [scratch-dir] [mutant names...]  -- like seed_regress.sh, for mutants/*.patch (isolated: scratch
# worktree of /repo HEAD + committed harness). Appends JSON lines to <scratch>/results.jsonl. Not part of MANIFEST.
ROOT=/verif
S="${1:-/tmp/mutant-regress}"; shift || true
ids=("$@"); [ ${#ids[@]} -eq 0 ] && ids=($(ls "$ROOT/mutants" | sed "s/.patch$//"))
export CARGO_NET_OFFLINE=true
mkdir -p "$S"
W="$S/repo"; H="$S/harness"
[ -d "$W" ] || git -C /repo worktree add --detach "$W" HEAD >/dev/null 2>&1
git -C "$W" checkout -q --detach "$(git -C /repo rev-parse HEAD)"; git -C "$W" checkout -- .
rm -rf "$H"; mkdir -p "$H"
git -C "$ROOT" archive HEAD harness known_findings.json | tar -x -C "$H"
HEADC=$(git -C "$ROOT" rev-parse --short HEAD)
sed -i "s|path = \"/repo\"|path = \"$W\"|" "$H/harness/Cargo.toml"
BIN="$S/target/debug/cobweb_verif"
for id in "${ids[@]}"; do
  P="$ROOT/mutants/$id.patch"; [ -f "$P" ] || continue
  git -C "$W" checkout -- .
  if ! git -C "$W" apply "$P" 2>/dev/null; then echo "$id: PATCH-DOES-NOT-APPLY"; echo "{\"id\":\"$id\",\"verif_commit\":\"$HEADC\",\"status\":\"patch-does-not-apply\"}" >> "$S/results.jsonl"; continue; fi
  if ! (cd "$H/harness" && CARGO_TARGET_DIR="$S/target" cargo build --offline --bin cobweb_verif > "$S/build.log" 2>&1); then
    echo "$id: HARNESS-DOES-NOT-BUILD"; echo "{\"id\":\"$id\",\"verif_commit\":\"$HEADC\",\"status\":\"harness-does-not-build\"}" >> "$S/results.jsonl"; continue
  fi
  hits=""; inc=""
  for p in C01 C02 C03 C04 C05 C06 C07 C08 C09 C10 C11 C12 C13 C14 C15 C16 C17 C18; do
    "$BIN" check --prop $p --tier quick --seed "${VERIF_SEED:-1}" --out "$S/ev-$p.json" --replay-dir "$S/replays" --known "$H/known_findings.json" > "$S/out-$p.txt" 2>&1; rc=$?
    [ $rc -eq 1 ] && hits="$hits $p"
    [ $rc -ge 2 ] && inc="$inc $p"
  done
  echo "$id: caught-by:${hits:- NONE} inconclusive:${inc:- -}"
  echo "{\"id\":\"$id\",\"verif_commit\":\"$HEADC\",\"status\":\"ran\",\"caught_by\":\"$hits\",\"inconclusive\":\"$inc\"}" >> "$S/results.jsonl"
done
git -C "$W" checkout -- .
