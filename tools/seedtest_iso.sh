#!/usr/bin/env bash
# Usage: tools/seedtest_iso.sh <prefix> <Cxx> <name> [seed]
# Confirms a seeded change produced by a sub-agent in the scratch worktree /tmp/<prefix>-<Cxx> (deliverables in
# /tmp/<prefix>-<Cxx>-out), stores it under seeded/<name>/ and runs every quick check against it WITHOUT touching /repo
# or /verif/harness: the committed harness (git archive HEAD) is copied to /tmp/<prefix>-<Cxx>-harness with its
# bevy_cobweb path dependency pointing at the scratch worktree (which has the change applied), built into a shared
# scratch target dir, and every property's quick workload is run with the same arguments ./check uses.
# The in-place variant (apply to /repo, ./check, undo) is ./seedtest.   Not part of MANIFEST.
set -u
PFX="$1"; P="$2"; NAME="$3"; SEED="${4:-1}"
ROOT="$(cd "$(dirname "$0")/.." && pwd)"
W="/tmp/$PFX-$P"; O="/tmp/$PFX-$P-out"; H="/tmp/$PFX-$P-harness"
export CARGO_NET_OFFLINE=true
[ -f "$O/patch.diff" ] || { echo "no patch in $O"; exit 2; }
D="$ROOT/seeded/$NAME"; mkdir -p "$D"
cp "$O/patch.diff" "$D/patch.diff"
cp "$O"/seed_demo.rs "$D/" 2>/dev/null
cp "$O"/notes.md "$D/agent_notes.md" 2>/dev/null
# 1. confirm in the scratch worktree: tests pass with the change, demo fails with it and passes without it
cd "$W" || exit 2
git diff -- src bevy_cobweb_derive > "/tmp/$PFX-$P.src.diff"
if ! diff -q <(grep -v '^index ' "/tmp/$PFX-$P.src.diff") <(grep -v '^index ' "$O/patch.diff") >/dev/null; then echo "note: worktree diff differs from delivered patch.diff (using the worktree state)"; cp "/tmp/$PFX-$P.src.diff" "$D/patch.diff"; fi
tests_with=$(cargo test --workspace --no-fail-fast --offline --test tests 2>&1 | grep -E "^test result" | head -1)
demo_with=$(cargo test --offline --test seed_demo 2>&1 | grep -E "^test result" | head -1)
git checkout -- src bevy_cobweb_derive
demo_without=$(cargo test --offline --test seed_demo 2>&1 | grep -E "^test result" | head -1)
git apply "/tmp/$PFX-$P.src.diff"
echo "existing tests with change : $tests_with"
echo "demo with change           : $demo_with"
echo "demo without change        : $demo_without"
# 2. does the patch apply to /repo's HEAD? (check only)
if ! git -C /repo apply --check "$D/patch.diff" 2>/dev/null; then echo "WARNING: patch does not apply cleanly to /repo HEAD"; fi
# 3. committed harness against the scratch worktree (the read-only verif hook files are brought up to /repo's HEAD so
#    that a worktree created before a later hook commit still builds; they are restored afterwards)
cp /repo/src/verif.rs "$W/src/verif.rs"; cp /repo/src/react/verif_access.rs "$W/src/react/verif_access.rs"
rm -rf "$H"; mkdir -p "$H"
git -C "$ROOT" archive HEAD harness known_findings.json | tar -x -C "$H"
sed -i "s|path = \"/repo\"|path = \"$W\"|" "$H/harness/Cargo.toml"
if ! (cd "$H/harness" && CARGO_TARGET_DIR=/tmp/seed-harness-target cargo build --offline --bin cobweb_verif > "$H/build.log" 2>&1); then
  echo "harness does not build against the change"; tail -20 "$H/build.log"; hits=""; inc="ALL"
else
  BIN=/tmp/seed-harness-target/debug/cobweb_verif
  hits=""; inc=""
  rm -f "$D"/caught-by-*.txt
  for p in C01 C02 C03 C04 C05 C06 C07 C08 C09 C10 C11 C12 C13 C14 C15 C16 C17 C18; do
    out=$("$BIN" check --prop $p --tier quick --seed "$SEED" --out "$H/ev-$p.json" --replay-dir "$H/replays" --known "$H/known_findings.json" 2>&1); rc=$?
    if [ $rc -eq 1 ]; then hits="$hits $p"; echo "$out" | grep -A1 "^VIOLATION" | head -4 | cut -c1-400 > "$D/caught-by-$p.txt"; fi
    if [ $rc -ge 2 ]; then inc="$inc $p"; fi
  done
fi
echo "caught by:${hits:- NONE}   inconclusive:${inc:- -}"
cd "$ROOT"
python3 - "$NAME" "$P" "$tests_with" "$demo_with" "$demo_without" "$hits" "$inc" "$(git rev-parse --short HEAD)" <<'PY'
import json,sys,os
name,p,tw,dw,dwo,hits,inc,head=sys.argv[1:9]
old={}
if os.path.exists(f"seeded/{name}/meta.json"):
    try: old=json.load(open(f"seeded/{name}/meta.json"))
    except Exception: old={}
hist=old.get("history",[])
if isinstance(hist,str): hist=[hist] if hist else []
if old.get("quick_checks_reporting_violation") is not None and old.get("verif_commit")!=head:
    hist.append({"verif_commit":old.get("verif_commit","?"),"caught_by":old.get("quick_checks_reporting_violation")})
json.dump({"property_broken":p,"name":name,"history":hist,
 "needs_to_manifest":"see agent_notes.md",
 "confirmed":{"existing_tests_with_change":tw,"demo_with_change":dw,"demo_without_change":dwo},
 "ran":"tools/seedtest_iso.sh: cargo test --test tests / --test seed_demo in the scratch worktree with and without the src change; then the committed harness (git archive HEAD) built against the scratch worktree with the change applied, every property's quick workload run as ./check runs it (/repo itself untouched)",
 "verif_commit":head,
 "quick_checks_reporting_violation":hits.split(),"quick_checks_inconclusive":inc.split()},open(f"seeded/{name}/meta.json","w"),indent=1)
PY
git -C "$W" checkout -- src/verif.rs src/react/verif_access.rs
rm -rf "$H"
