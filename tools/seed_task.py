#!/usr/bin/env python3
"""usage: seed_task.py <prefix> <id> [<avoid text>]  -- writes /tmp/<prefix>-<id>-out/TASK.md (property text + instructions
for an independent sub-agent). Nothing from /verif except the given property text goes in."""
import json, sys
pfx, pid = sys.argv[1], sys.argv[2]
avoid = sys.argv[3] if len(sys.argv) > 3 else ""
p = next(json.loads(l) for l in open('/verif/properties.jsonl') if json.loads(l)['id'] == pid)
W = f"/tmp/{pfx}-{pid}"; O = W + "-out"
t = f"""# Task: seed a subtle, realistic defect into bevy_cobweb that breaks one stated property

You work ONLY in the git worktree `{W}` (a scratch checkout of the Rust crate `bevy_cobweb`, a Bevy ECS reactivity
library) and write deliverables to `{O}/`. Do not read or write anything under /verif, /repo, /root/.claude or /root/.vp,
and do not look at other /tmp/{pfx}-* directories. No network: always pass `--offline` to cargo. The worktree already
contains a warm `target/` directory, so `cargo test --offline --test tests` takes well under a minute.

## The property (this text is all you are given about it)

**{p['id']} - {p['title']}**

Statement: {p['statement']}

Quantified over: {p['quantifier']['text']}

Why the existing unit tests cannot settle it: {p['why_tests_cant']}

Code anchors: {json.dumps(p['anchors'])}

## What to produce

A *realistic* change to the library source (`src/**`, optionally `bevy_cobweb_derive/**`) - the kind of slip, refactor,
"optimisation" or incomplete fix a maintainer could plausibly commit - such that:

1. the crate still compiles, and the existing test suite still passes unedited:
   `cd {W} && cargo test --workspace --no-fail-fast --offline` (81 tests);
2. the property above is violated, but only when something *specific* happens: a particular interleaving or ordering,
   a multi-step sequence of operations, an unusual input/state, a despawn/fault at a particular point, or two
   cooperating code sites that each look fine alone. A change that ordinary use of the library would expose at once
   (e.g. every broadcast is lost) is NOT wanted;
3. you demonstrate it with a test file `tests/seed_demo.rs` (a `[[test]] name = "seed_demo"` entry is already in
   Cargo.toml; write ordinary `#[test]` functions using only the public API of bevy_cobweb and bevy, see
   `tests/test/**` for the style) that FAILS with your change (`cargo test --offline --test seed_demo`) and PASSES on
   the unchanged source (check with `git diff -- src > {O}/x.diff; git checkout -- src`, run, then `git apply {O}/x.diff`;
   never use `git stash`: the stash is shared with other worktrees of the same repository). The
   demonstration must assert the behaviour the property states, not an implementation detail.
{('4. ' + avoid) if avoid else ''}

Do not touch `#[cfg(feature = "verif")]` code, `src/verif.rs` or `src/react/verif_access.rs` (ignore them; they are
read-only instrumentation and your change must not depend on them), and do not edit the existing tests.

## Deliverables (all in `{O}/`)

* `patch.diff` - output of `git -C {W} diff -- src bevy_cobweb_derive` (source change only; not the demo, not Cargo.toml);
* `seed_demo.rs` - a copy of `tests/seed_demo.rs`;
* `notes.md` - what the change is and why it looks innocent, why the 81 tests still pass, exactly what is needed for the
  violation to manifest, which clause of the property is violated.

Leave the worktree with your change applied and `tests/seed_demo.rs` in place. Before finishing, re-run the three
commands yourself (81 tests pass with the change; seed_demo fails with it; seed_demo passes without it) and say so in
your final message together with a three-line summary of the change.
"""
open(O + "/TASK.md", "w").write(t)
print(O + "/TASK.md")
