#!/usr/bin/env bash
# Usage: tools/harmless_test.sh <prefix> <id> [seeds...]
# A sub-agent was asked for a realistic change that PRESERVES all 18 properties (tools/harmless_task.py), in the scratch
# worktree /tmp/<prefix>-<id>. This stores it under harmless/<id>/ and runs every quick check against it (committed
# harness built against the worktree; /repo untouched), at the given seeds (default 1). Every check is expected to
# exit 0; anything else is printed for triage (is the change really property-preserving, or is the check too strict?).
set -u
PFX="$1"; ID="$2"; shift 2; SEEDS=("$@"); [ ${#SEEDS[@]} -eq 0 ] && SEEDS=(1)
ROOT=/verif
W="/tmp/$PFX-$ID"; O="/tmp/$PFX-$ID-out"; H="/tmp/$PFX-$ID-harness"
export CARGO_NET_OFFLINE=true
D="$ROOT/harmless/$ID"; mkdir -p "$D"
git -C "$W" diff -- src > "$D/patch.diff"
cp "$O/notes.md" "$D/agent_notes.md" 2>/dev/null
tests=$(cd "$W" && cargo test --workspace --no-fail-fast --offline --test tests 2>&1 | grep -E "^test result" | head -1)
echo "existing tests with change: $tests"
cp /repo/src/verif.rs "$W/src/verif.rs.orig" 2>/dev/null; rm -f "$W/src/verif.rs.orig"
rm -rf "$H"; mkdir -p "$H"
git -C "$ROOT" archive HEAD harness known_findings.json | tar -x -C "$H"
sed -i "s|path = \"/repo\"|path = \"$W\"|" "$H/harness/Cargo.toml"
if ! (cd "$H/harness" && CARGO_TARGET_DIR=/tmp/harm-harness-target cargo build --offline --bin cobweb_verif > "$H/build.log" 2>&1); then
  echo "harness does not build against the change"; grep -E "^error" -A8 "$H/build.log" | head -30
  echo "{\"id\":\"$ID\",\"status\":\"harness-does-not-build\"}" > "$D/result.json"; exit 2
fi
BIN=/tmp/harm-harness-target/debug/cobweb_verif
alarms=""
for s in "${SEEDS[@]}"; do
  for p in C01 C02 C03 C04 C05 C06 C07 C08 C09 C10 C11 C12 C13 C14 C15 C16 C17 C18; do
    out=$("$BIN" check --prop $p --tier quick --seed "$s" --out "$H/ev-$p.json" --replay-dir "$H/replays" --known "$H/known_findings.json" 2>&1); rc=$?
    if [ $rc -ne 0 ]; then alarms="$alarms $p@$s"; echo "$out" | grep -A1 "^VIOLATION\|INCONC" | head -6 | cut -c1-500 > "$D/alarm-$p-seed$s.txt"; fi
  done
done
echo "alarms:${alarms:- NONE}"
python3 - "$ID" "$tests" "$alarms" "$(git -C $ROOT rev-parse --short HEAD)" "${SEEDS[*]}" <<'PY'
import json,sys
i,t,a,h,s=sys.argv[1:6]
json.dump({"id":i,"existing_tests_with_change":t,"verif_commit":h,"seeds":s.split(),"quick_checks_not_exit_0":a.split()},open(f"/verif/harmless/{i}/result.json","w"),indent=1)
PY
rm -rf "$H"
