#!/usr/bin/env python3
"""usage: harmless_task.py <prefix> <id> <focus text>  -- writes /tmp/<prefix>-<id>-out/TASK.md asking an independent
sub-agent for a realistic change that PRESERVES all 18 properties (to test that the checks raise no false alarm)."""
import json, sys
pfx, hid, focus = sys.argv[1], sys.argv[2], sys.argv[3]
props = [json.loads(l) for l in open('/verif/properties.jsonl')]
W = f"/tmp/{pfx}-{hid}"; O = W + "-out"
plist = "\n".join(f"* **{p['id']} - {p['title']}**: {p['statement']}" for p in props)
t = f"""# Task: a realistic change to bevy_cobweb that preserves its stated properties

You work ONLY in the git worktree `{W}` (a scratch checkout of the Rust crate `bevy_cobweb`, a Bevy ECS reactivity
library) and write deliverables to `{O}/`. Do not read or write anything under /verif, /repo, /root/.claude or /root/.vp,
and do not look at other /tmp/{pfx}-* directories. No network: always pass `--offline` to cargo. The worktree contains a
warm `target/` directory.

## The properties users of the library rely on

{plist}

## What to produce

A *realistic, non-trivial* change to the library source (`src/**`) of the kind maintainers make all the time - a refactor,
an optimisation, a different internal data structure, a reordering of things whose order none of the properties fixes, a
change of timing that stays inside what the properties allow, extra defensive checks, ... - such that

1. the crate compiles and `cd {W} && cargo test --workspace --no-fail-fast --offline --test tests` passes (81 tests); if a
   test fails only because it pins behaviour that none of the 18 properties fixes, say so in the notes and keep the change;
2. EVERY one of the 18 properties above still holds after your change, for every input and history, not just the tested
   ones. Be careful and honest: if you are not sure a property is preserved, pick another change;
3. the change is not a no-op: it should alter control flow, data structures or observable-but-unspecified behaviour
   (orderings, timing of internal clean-up, number of internal entities alive *during* a tree, log output, ...) in at
   least {focus}. Aim for 20-80 changed lines.

Do not touch `#[cfg(feature = "verif")]` code, `src/verif.rs` or `src/react/verif_access.rs` beyond what is needed to keep
them compiling (`cargo check --offline --features verif` must still build), and do not edit the existing tests.

Never use `git stash` (the stash is shared between all worktrees of this repository, other people work in sibling
worktrees); to compare with the unchanged source save `git diff -- src` to a file, `git checkout -- src`, and `git apply` it again.

## Deliverables (all in `{O}/`)

* `patch.diff` - output of `git -C {W} diff -- src`;
* `notes.md` - what the change is, what observable-but-unspecified behaviour it alters (if any), and for each property that
  the changed code is relevant to, a short argument why it still holds.

Leave the worktree with your change applied. Re-run the test command before finishing and report the result and a
three-line summary of the change in your final message.
"""
open(O + "/TASK.md", "w").write(t)
print(O + "/TASK.md")
