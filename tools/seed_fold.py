#!/usr/bin/env python3
"""usage: seed_fold.py <results.jsonl>  -- folds the latest result per seed into seeded/<id>/meta.json (previous result
is moved to the history list)."""
import json, sys, os
latest = {}
for l in open(sys.argv[1]):
    try:
        r = json.loads(l)
    except Exception:
        continue
    latest[r["id"]] = r
for sid, r in sorted(latest.items()):
    mp = f"/verif/seeded/{sid}/meta.json"
    if not os.path.exists(mp) or r.get("status") != "ran":
        print(sid, r.get("status")); continue
    m = json.load(open(mp))
    hist = m.get("history", [])
    if isinstance(hist, str):
        hist = [hist] if hist else []
    if m.get("quick_checks_reporting_violation") is not None and m.get("verif_commit") != r["verif_commit"]:
        hist.append({"verif_commit": m.get("verif_commit", "earlier"), "caught_by": m["quick_checks_reporting_violation"]})
    m["history"] = hist
    m["verif_commit"] = r["verif_commit"]
    m["quick_checks_reporting_violation"] = r["caught_by"].split()
    m["quick_checks_inconclusive"] = r["inconclusive"].split()
    m["last_run"] = "tools/seed_regress.sh (committed harness built against a scratch worktree of /repo HEAD with the patch applied)"
    json.dump(m, open(mp, "w"), indent=1)
    print(sid, "caught by", r["caught_by"] or "NONE")
