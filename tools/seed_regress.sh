#!/usr/bin/env bash
# Usage: tools/seed_regress.sh [scratch-dir] [seed ids...]
# Re-runs every quick check against every stored seeded change (seeded/<id>/patch.diff) without touching /repo or
# /verif/harness: one scratch worktree of /repo's HEAD, the committed harness (git archive HEAD) with its bevy_cobweb
# dependency pointed at the worktree; per seed: apply, run every property's quick workload, revert.
# Appends one JSON line per seed to <scratch>/results.jsonl and prints a table. Fold the results into seeded/*/meta.json
# with tools/seed_fold.py. Not part of MANIFEST.
set -u
ROOT=/verif
S="${1:-/tmp/seed-regress}"; shift || true
ids=("$@"); [ ${#ids[@]} -eq 0 ] && ids=($(ls "$ROOT/seeded"))
export CARGO_NET_OFFLINE=true
mkdir -p "$S"
W="$S/repo"; H="$S/harness"
[ -d "$W" ] || git -C /repo worktree add --detach "$W" HEAD >/dev/null 2>&1
git -C "$W" checkout -q --detach "$(git -C /repo rev-parse HEAD)"; git -C "$W" checkout -- .
rm -rf "$H"; mkdir -p "$H"
git -C "$ROOT" archive HEAD harness known_findings.json | tar -x -C "$H"
HEADC=$(git -C "$ROOT" rev-parse --short HEAD)
sed -i "s|path = \"/repo\"|path = \"$W\"|" "$H/harness/Cargo.toml"
BIN="$S/target/debug/cobweb_verif"
for id in "${ids[@]}"; do
  P="$ROOT/seeded/$id/patch.diff"; [ -f "$P" ] || continue
  git -C "$W" checkout -- .
  if ! git -C "$W" apply "$P" 2>/dev/null; then echo "$id: PATCH-DOES-NOT-APPLY"; echo "{\"id\":\"$id\",\"verif_commit\":\"$HEADC\",\"status\":\"patch-does-not-apply\"}" >> "$S/results.jsonl"; continue; fi
  if ! (cd "$H/harness" && CARGO_TARGET_DIR="$S/target" cargo build --offline --bin cobweb_verif > "$S/build.log" 2>&1); then
    echo "$id: HARNESS-DOES-NOT-BUILD"; echo "{\"id\":\"$id\",\"verif_commit\":\"$HEADC\",\"status\":\"harness-does-not-build\"}" >> "$S/results.jsonl"; continue
  fi
  hits=""; inc=""
  for p in C01 C02 C03 C04 C05 C06 C07 C08 C09 C10 C11 C12 C13 C14 C15 C16 C17 C18; do
    "$BIN" check --prop $p --tier quick --seed "${VERIF_SEED:-1}" --out "$S/ev-$p.json" --replay-dir "$S/replays" --known "$H/known_findings.json" > "$S/out-$p.txt" 2>&1; rc=$?
    [ $rc -eq 1 ] && hits="$hits $p"
    [ $rc -ge 2 ] && inc="$inc $p"
  done
  echo "$id: caught-by:${hits:- NONE} inconclusive:${inc:- -}"
  echo "{\"id\":\"$id\",\"verif_commit\":\"$HEADC\",\"status\":\"ran\",\"caught_by\":\"$hits\",\"inconclusive\":\"$inc\"}" >> "$S/results.jsonl"
done
git -C "$W" checkout -- .
