#!/usr/bin/env bash
# Which lines of /repo/src do the workloads of the checks actually reach?  Builds the harness with
# -Cinstrument-coverage (nightly, scratch target dir outside /verif), runs every property's quick workload with a reduced
# budget, and prints per-file line coverage of the crate plus the uncovered lines.  Not part of MANIFEST.
# usage: coverage.sh [scratch-dir] [programs]
set -u
ROOT="$(cd "$(dirname "$0")/.." && pwd)"
S="${1:-/tmp/verif-cov}"; N="${2:-8000}"
BIN_DIR="$HOME/.rustup/toolchains/nightly-x86_64-unknown-linux-gnu/lib/rustlib/x86_64-unknown-linux-gnu/bin"
mkdir -p "$S/prof"; rm -f "$S"/prof/*
(cd "$ROOT/harness" && LLVM_PROFILE_FILE="$S/prof/build-%p-%m.profraw" RUSTFLAGS="-Cinstrument-coverage" CARGO_TARGET_DIR="$S/target" cargo +nightly build --offline --bin cobweb_verif 2>&1 | tail -2)
B="$S/target/debug/cobweb_verif"
rm -f "$S"/prof/build-*.profraw
for p in ${PROPS:-C01 C02 C03 C04 C05 C06 C07 C08 C09 C10 C11 C12 C13 C14 C15 C16 C17 C18}; do
  extra="--programs $N"; [ "$p" = C10 ] && extra="--programs 3000 --trials 40"
  LLVM_PROFILE_FILE="$S/prof/$p-%p.profraw" "$B" check --prop $p --tier quick --seed 1 $extra --out "$S/ev-$p.json" --replay-dir "$S/replays" --known "$ROOT/known_findings.json" | tail -1 | cut -c1-150
  "$BIN_DIR/llvm-profdata" merge -sparse "$S"/prof/$p-*.profraw -o "$S/$p.profdata"
done
"$BIN_DIR/llvm-profdata" merge -sparse "$S"/*.profdata -o "$S/all.profdata"
"$BIN_DIR/llvm-cov" report "$B" -instr-profile="$S/all.profdata" --ignore-filename-regex='(registry|rustc|harness|verif)' 2>/dev/null | cut -c1-200 > "$S/report.txt"
cat "$S/report.txt"
"$BIN_DIR/llvm-cov" show "$B" -instr-profile="$S/all.profdata" --ignore-filename-regex='(registry|rustc|harness|verif)' --show-line-counts-or-regions 2>/dev/null > "$S/show.txt"
echo "annotated source: $S/show.txt"
