#!/usr/bin/env python3
"""Merges the evidence of additional stages (release build, sanitizer stages) into the primary evidence file.
usage: merge_evidence.py <primary.json> [--stage name=<file.json>]... [--note name=<text-file>]...
The primary file keeps its own coverage; every stage is recorded under coverage.stages with its own measured counts,
evaluations are summed, violations are summed."""
import json, sys
primary = sys.argv[1]
ev = json.load(open(primary))
cov = ev["coverage"]
stages = cov.setdefault("stages", [])
stages.append({"name": "primary", "build_profile": cov.get("build_profile"), "evaluations": cov.get("evaluations"),
               "distinct_nontrivial": cov.get("distinct_nontrivial"), "violations": ev.get("violations", 0)})
args = sys.argv[2:]
i = 0
while i < len(args):
    if args[i] == "--stage":
        name, path = args[i + 1].split("=", 1)
        try:
            s = json.load(open(path))
            sc = s["coverage"]
            stages.append({"name": name, "build_profile": sc.get("build_profile"), "evaluations": sc.get("evaluations"),
                           "distinct_nontrivial": sc.get("distinct_nontrivial"), "violations": s.get("violations", 0),
                           "monitor_counters": sc.get("monitor_counters"), "wall_s": s.get("wall_s"),
                           "violation_signatures": s.get("violation_signatures")})
            cov["evaluations"] = cov.get("evaluations", 0) + sc.get("evaluations", 0)
            ev["violations"] = ev.get("violations", 0) + s.get("violations", 0)
            ev["wall_s"] = ev.get("wall_s", 0) + s.get("wall_s", 0)
        except Exception as e:  # a stage that produced no evidence is recorded as such
            stages.append({"name": name, "error": f"no evidence produced: {e}"})
        i += 2
    elif args[i] == "--note":
        name, path = args[i + 1].split("=", 1)
        try:
            txt = open(path).read()
        except Exception as e:
            txt = f"(missing: {e})"
        if not isinstance(cov.get("sanitizer_stages"), dict):
            cov["sanitizer_stages"] = {}
        cov["sanitizer_stages"][name] = txt[-4000:]
        i += 2
    else:
        i += 1
json.dump(ev, open(primary, "w"), indent=1)
