#!/usr/bin/env bash
# Runs every quick check at several seeds (and optionally some thorough ones) and reports anything that is not exit 0.
# usage: silence_sweep.sh "<seeds>" "<thorough props>"
cd "$(dirname "$0")/.."
./check setup >/dev/null 2>&1
bad=0
for s in $1; do
  for p in C01 C02 C03 C04 C05 C06 C07 C08 C09 C10 C11 C12 C13 C14 C15 C16 C17 C18; do
    out=$(VERIF_SEED=$s ./check $p quick 2>&1); rc=$?
    if [ $rc -ne 0 ]; then bad=$((bad+1)); echo "seed $s $p quick rc=$rc"; echo "$out" | grep -A1 "VIOLATION\|INCONCL" | head -6 | cut -c1-400; fi
  done
  echo "quick seed $s done"
done
for p in $2; do
  out=$(VERIF_SEED=7 ./check $p thorough 2>&1); rc=$?
  echo "$out" | tail -3 | cut -c1-300
  if [ $rc -ne 0 ]; then bad=$((bad+1)); echo "$p thorough rc=$rc"; echo "$out" | grep -A1 "VIOLATION\|INCONCL" | head -6 | cut -c1-400; fi
done
echo "sweep finished: $bad non-zero exits"
