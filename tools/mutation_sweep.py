#!/usr/bin/env python3
"""Broad screen for deaf monitors: generates simple syntactic mutants of the crate in a scratch copy (never in
/repo), rebuilds a scratch copy of the harness against it and runs every quick check with a reduced budget.
Survivors (no check exits 1) are listed for manual triage: equivalent mutant, or a gap in the workload / oracles.

usage: mutation_sweep.py <scratch-dir> [--max N] [--seed S] [--files a.rs,b.rs] [--tests]
Results are appended to <scratch-dir>/results.jsonl; a summary is printed at the end.
Not part of MANIFEST.
"""
import json, os, random, re, shutil, subprocess, sys, time

ROOT = os.path.dirname(os.path.dirname(os.path.abspath(__file__)))
scratch = sys.argv[1]
args = sys.argv[2:]
def opt(name, default=None):
    return args[args.index(name) + 1] if name in args else default
MAX = int(opt("--max", "100000"))
SEED = int(opt("--seed", "1"))
RUN_TESTS = "--tests" in args
FILES = opt("--files")
ONLY = opt("--only")  # results.jsonl of an earlier sweep: re-run only its survivors
PROPS = ["C01","C02","C03","C04","C05","C06","C07","C08","C09","C10","C11","C12","C13","C14","C15","C16","C17","C18"]

repo = os.path.join(scratch, "repo")
harness = os.path.join(scratch, "harness")
os.makedirs(scratch, exist_ok=True)
if not os.path.exists(repo):
    subprocess.run(["rsync", "-a", "--exclude", "target", "--exclude", ".git", "/repo/", repo + "/"], check=True)
subprocess.run(["rsync", "-a", "--exclude", "target*", os.path.join(ROOT, "harness") + "/", harness + "/"], check=True)
ct = open(os.path.join(harness, "Cargo.toml")).read().replace('path = "/repo"', f'path = "{repo}"')
open(os.path.join(harness, "Cargo.toml"), "w").write(ct)

def sh(cmd, cwd=None, timeout=1800):
    return subprocess.run(cmd, cwd=cwd, shell=True, capture_output=True, text=True, timeout=timeout)

print("building baseline ...", flush=True)
r = sh("cargo build --offline --bin cobweb_verif", cwd=harness)
if r.returncode != 0:
    print(r.stderr[-2000:]); sys.exit(2)
BIN = os.path.join(harness, "target/debug/cobweb_verif")

src_files = []
for d in ["src/react", "src/ecs"]:
    for f in sorted(os.listdir(os.path.join(repo, d))):
        if f.endswith(".rs") and f not in ("verif_access.rs", "mod.rs", "err.rs", "extensions.rs", "REACT.md"):
            src_files.append(os.path.join(d, f))
src_files.append("src/result.rs")
if FILES:
    want = FILES.split(",")
    src_files = [f for f in src_files if os.path.basename(f) in want]

def sites(path):
    """Yields (line_no, description, new_line) mutation candidates."""
    lines = open(os.path.join(repo, path)).read().split("\n")
    in_verif = False
    depth_doc = False
    for i, line in enumerate(lines):
        s = line.strip()
        if s.startswith("#[cfg(feature = \"verif\")]"):
            in_verif = True
            continue
        if in_verif:
            # skip the guarded item: a single statement / block following the attribute
            if s.endswith(";") or s == "}" or s.endswith("}"):
                in_verif = False
            continue
        if s.startswith("//") or s.startswith("///") or s.startswith("*") or s.startswith("/*") or not s:
            continue
        if "tracing::" in s or "debug_assert" in s or s.startswith("use ") or s.startswith("pub use") or "warn_once!" in s:
            continue
        if "verif" in s:
            continue
        ind = line[: len(line) - len(line.lstrip())]
        # (a) delete a call statement
        if s.endswith(";") and not s.startswith("let ") and not s.startswith("return") and "=>" not in s and not s.startswith("pub ") and not s.startswith("type ") and ("(" in s) and not s.startswith("}"):
            yield (i, "delete-statement", ind + "{ }" if False else ind + "();" if False else None, "del")
        # (b) == <-> !=
        if " == " in s and "=>" not in s:
            yield (i, "eq-to-ne", line.replace(" == ", " != ", 1), "rep")
        if " != " in s:
            yield (i, "ne-to-eq", line.replace(" != ", " == ", 1), "rep")
        # (c) negate a simple if / if let guards with else-return
        m = re.match(r"^(\s*)if (?!let )(.*?)\s*\{(.*)$", line)
        if m and "else" not in s:
            yield (i, "negate-if", f"{m.group(1)}if !({m.group(2)}) {{{m.group(3)}", "rep")
        # (d) continue / break / return swaps
        if s == "continue;":
            yield (i, "continue-to-break", ind + "break;", "rep")
        if s == "break;":
            yield (i, "break-to-continue", ind + "continue;", "rep")
        if re.search(r"\{ return; \}", s) and "else" in s:
            yield (i, "drop-else-return", None, "skip")
        if re.search(r"\{ continue; \}", s) and "else" in s and "let " in s:
            yield (i, "else-continue-to-return", line.replace("{ continue; }", "{ return; }"), "rep")
        # (e) arithmetic
        if "+= 1" in s:
            yield (i, "inc-by-2", line.replace("+= 1", "+= 2"), "rep")
        if ".saturating_sub(1)" in s:
            yield (i, "sub-0", line.replace(".saturating_sub(1)", ".saturating_sub(0)"), "rep")
        if "> 0" in s:
            yield (i, "gt0-to-gt1", line.replace("> 0", "> 1", 1), "rep")
        if "== 0" in s:
            yield (i, "eq0-to-eq1", line.replace("== 0", "== 1", 1), "rep")
        # (f) true/false
        if re.search(r"= true;", s):
            yield (i, "true-to-false", line.replace("= true;", "= false;"), "rep")
        if re.search(r"= false;", s):
            yield (i, "false-to-true", line.replace("= false;", "= true;"), "rep")
        # (g) clone handles: drop `.clone()` is a type error mostly; skip
        # (h) && <-> ||
        if " && " in s and "=>" not in s:
            yield (i, "and-to-or", line.replace(" && ", " || ", 1), "rep")
        if " || " in s and "=>" not in s and "|_|" not in s and "|w" not in s and "||" not in s.replace(" || ", "", 1):
            yield (i, "or-to-and", line.replace(" || ", " && ", 1), "rep")

cands = []
for f in src_files:
    for (i, desc, new, kind) in sites(f):
        if kind == "skip":
            continue
        cands.append((f, i, desc, new, kind))
random.Random(SEED).shuffle(cands)
if ONLY:
    keep = set()
    for l in open(ONLY):
        try:
            j = json.loads(l)
        except Exception:
            continue
        if j.get("status") == "survived":
            keep.add((j["file"], j["line"], j["op"]))
    cands = [c for c in cands if (c[0], c[1] + 1, c[2]) in keep]
done = set()
res_path = os.path.join(scratch, "results.jsonl")
if os.path.exists(res_path):
    for l in open(res_path):
        try:
            j = json.loads(l); done.add((j["file"], j["line"], j["op"]))
        except Exception:
            pass
print(f"{len(cands)} candidate mutants, {len(done)} already done", flush=True)

n = 0
summary = {"killed": 0, "survived": 0, "no-compile": 0, "inconclusive": 0}
for (f, i, desc, new, kind) in cands:
    if n >= MAX:
        break
    if (f, i + 1, desc) in done:
        continue
    path = os.path.join(repo, f)
    orig = open(path).read()
    lines = orig.split("\n")
    old_line = lines[i]
    if kind == "del":
        lines[i] = re.sub(r"\S.*$", "{}", old_line) if False else (old_line[: len(old_line) - len(old_line.lstrip())] + "// mutant: statement deleted")
    else:
        lines[i] = new
    open(path, "w").write("\n".join(lines))
    t0 = time.time()
    rec = {"file": f, "line": i + 1, "op": desc, "old": old_line.strip(), "new": lines[i].strip()}
    b = sh("cargo build --offline --bin cobweb_verif", cwd=harness)
    if b.returncode != 0:
        rec["status"] = "no-compile"
        summary["no-compile"] += 1
    else:
        hits, inc = [], []
        for p in PROPS:
            extra = "--programs 6000" if p not in ("C10",) else "--programs 4000 --trials 60"
            c = sh(f"{BIN} check --prop {p} --tier quick --seed {SEED} {extra} --out {scratch}/ev-{p}.json --replay-dir {scratch}/replays --known {ROOT}/known_findings.json", timeout=600)
            if c.returncode == 1:
                hits.append(p)
            elif c.returncode != 0:
                inc.append(p)
        rec["caught_by"] = hits
        rec["inconclusive"] = inc
        if hits:
            rec["status"] = "killed"; summary["killed"] += 1
        elif inc:
            rec["status"] = "inconclusive"; summary["inconclusive"] += 1
        else:
            rec["status"] = "survived"; summary["survived"] += 1
            if RUN_TESTS:  # only survivors: does the repository's own suite notice?
                t = sh("cargo test --workspace --no-fail-fast --offline 2>&1 | grep -E '^test result' | head -1", cwd=repo)
                rec["tests"] = t.stdout.strip()
    rec["secs"] = round(time.time() - t0, 1)
    open(path, "w").write(orig)
    open(res_path, "a").write(json.dumps(rec) + "\n")
    n += 1
    print(f"[{n}] {f}:{i+1} {desc}: {rec['status']} {rec.get('caught_by', '')} ({rec['secs']}s)", flush=True)
print("summary:", summary)
