// Throwaway smoke explorer (design phase only; not part of the framework).
use bevy::prelude::*;
use bevy_cobweb::prelude::*;
use std::collections::HashMap;
use std::sync::{Arc, Mutex};

const NE: usize = 3;

struct Rng(u64);
impl Rng {
    fn next(&mut self) -> u64 { let mut x = self.0; x ^= x << 13; x ^= x >> 7; x ^= x << 17; self.0 = x; x }
    fn below(&mut self, n: usize) -> usize { (self.next() % n as u64) as usize }
    fn chance(&mut self, pct: usize) -> bool { self.below(100) < pct }
}

#[derive(Clone, Copy, Debug, PartialEq, Eq, Hash)]
enum Trig { Bc(u8), Ee(usize, u8), AnyEe(u8), Ins(u8), Mut(u8), Rem(u8), EIns(usize, u8), EMut(usize, u8), ERem(usize, u8), Desp(usize) }

#[derive(Clone, Debug)]
enum Act { Mark, Run(usize), SendSe(usize), Bc(u8), Ee(usize, u8), Insert(usize, u8), Mutate(usize, u8), Remove(usize, u8), DespawnEnt(usize), Respawn(usize),
           Register { mode: u8, bundle: Vec<Trig>, script: usize }, Revoke(usize), DespawnSys(usize) }

#[derive(Clone, Debug, Default, PartialEq)]
struct Obs { bc: [Option<u32>; 2], ee: [Option<(Entity, u32)>; 2], se: Option<u32>, se2: Option<u32>, ins: [Option<Entity>; 2], mu: [Option<Entity>; 2], rem: [Option<Entity>; 2], desp: Option<Entity> }
impl Obs { fn count(&self) -> usize { self.bc.iter().flatten().count() + self.ee.iter().flatten().count() + self.se.iter().count() + self.ins.iter().flatten().count() + self.mu.iter().flatten().count() + self.rem.iter().flatten().count() + self.desp.iter().count() } }

#[derive(Clone, Debug)]
enum Ev { OpStart(usize), OpEnd(usize), RunStart { inst: usize, run_uid: u32, ordinal: u32, local: u32, obs: Obs }, Mark(u32),
          Create { id: u32, sender: u32, kind: &'static str, target: Option<usize> }, Drop(u32), Canary(usize), Note(String),
          Registered { inst: usize, mode: u8, trigs: Vec<(Trig, Entity, bool)>, tok: Option<usize> }, Revoked(usize), SysDespawned(usize),
          PreTrig { id: u32, bc: bool, ty: u8, entity: Entity, alive: bool } }

struct St { trace: Vec<Ev>, ents: [Entity; NE], systems: Vec<SystemCommand>, published: Vec<usize>, tokens: Vec<RevokeToken>, scripts: Vec<Vec<Vec<Act>>>, inst_script: Vec<usize>,
            fuel: u32, next_id: u32, next_run: u32 }
type Sh = Arc<Mutex<St>>;

struct Pay<const K: u8, const N: u8> { id: u32, st: Sh }
impl<const K: u8, const N: u8> Drop for Pay<K, N> { fn drop(&mut self) { self.st.lock().unwrap().trace.push(Ev::Drop(self.id)); } }
type BcP<const N: u8> = Pay<0, N>; type EeP<const N: u8> = Pay<1, N>; type SeP = Pay<2, 0>;
struct Canary { inst: usize, st: Sh }
impl Drop for Canary { fn drop(&mut self) { if let Ok(mut s) = self.st.lock() { s.trace.push(Ev::Canary(self.inst)); } } }

#[derive(PartialEq, Clone, Copy)] struct Rc<const N: u8>(u32);
impl<const N: u8> ReactComponent for Rc<N> {}

#[derive(Clone, Copy)] struct DynBundle { n: usize, t: [(Trig, Entity); 4] }
trait DynReg { fn rtype(&self) -> ReactorType; fn reg(&self, c: &mut Commands, h: &ReactorHandle); }
impl<T: ReactionTrigger> DynReg for T { fn rtype(&self) -> ReactorType { self.reactor_type() } fn reg(&self, c: &mut Commands, h: &ReactorHandle) { self.register(c, h) } }
fn with_trig<R>(t: Trig, e: Entity, f: impl FnOnce(&dyn DynReg) -> R) -> R {
    match t {
        Trig::Bc(0) => f(&broadcast::<BcP<0>>()), Trig::Bc(_) => f(&broadcast::<BcP<1>>()),
        Trig::Ee(_, 0) => f(&entity_event::<EeP<0>>(e)), Trig::Ee(_, _) => f(&entity_event::<EeP<1>>(e)),
        Trig::AnyEe(0) => f(&any_entity_event::<EeP<0>>()), Trig::AnyEe(_) => f(&any_entity_event::<EeP<1>>()),
        Trig::Ins(0) => f(&insertion::<Rc<0>>()), Trig::Ins(_) => f(&insertion::<Rc<1>>()),
        Trig::Mut(0) => f(&mutation::<Rc<0>>()), Trig::Mut(_) => f(&mutation::<Rc<1>>()),
        Trig::Rem(0) => f(&removal::<Rc<0>>()), Trig::Rem(_) => f(&removal::<Rc<1>>()),
        Trig::EIns(_, 0) => f(&entity_insertion::<Rc<0>>(e)), Trig::EIns(_, _) => f(&entity_insertion::<Rc<1>>(e)),
        Trig::EMut(_, 0) => f(&entity_mutation::<Rc<0>>(e)), Trig::EMut(_, _) => f(&entity_mutation::<Rc<1>>(e)),
        Trig::ERem(_, 0) => f(&entity_removal::<Rc<0>>(e)), Trig::ERem(_, _) => f(&entity_removal::<Rc<1>>(e)),
        Trig::Desp(_) => f(&despawn(e)),
    }
}
impl ReactionTriggerBundle for DynBundle {
    fn len(&self) -> usize { self.n }
    fn collect_reactor_types(self, func: &mut impl FnMut(ReactorType)) { for (t, e) in &self.t[..self.n] { func(with_trig(*t, *e, |r| r.rtype())); } }
    fn register_triggers(self, c: &mut Commands, h: &ReactorHandle) { for (t, e) in &self.t[..self.n] { with_trig(*t, *e, |r| r.reg(c, h)); } }
}

type Readers<'w, 's> = (
    (BroadcastEvent<'w, 's, BcP<0>>, BroadcastEvent<'w, 's, BcP<1>>, EntityEvent<'w, 's, EeP<0>>, EntityEvent<'w, 's, EeP<1>>),
    (InsertionEvent<'w, 's, Rc<0>>, InsertionEvent<'w, 's, Rc<1>>, MutationEvent<'w, 's, Rc<0>>, MutationEvent<'w, 's, Rc<1>>, RemovalEvent<'w, 's, Rc<0>>, RemovalEvent<'w, 's, Rc<1>>),
    DespawnEvent<'w>,
);
fn sample(r: &Readers, se: &mut SystemEvent<SeP>) -> (Obs, Option<SeP>) {
    let ((b0, b1, e0, e1), (i0, i1, m0, m1, r0, r1), d) = r;
    let p = se.take().ok(); let p2 = se.take().ok();
    (Obs { bc: [b0.try_read().ok().map(|p| p.id), b1.try_read().ok().map(|p| p.id)],
          ee: [e0.try_read().ok().map(|(e, p)| (e, p.id)), e1.try_read().ok().map(|(e, p)| (e, p.id))],
          se: p.as_ref().map(|p| p.id), se2: p2.as_ref().map(|p| p.id),
          ins: [i0.get().ok(), i1.get().ok()], mu: [m0.get().ok(), m1.get().ok()], rem: [r0.get().ok(), r1.get().ok()], desp: d.get().ok() }, p)
}

fn dyn_bundle(st: &St, b: &[Trig]) -> DynBundle {
    let mut t = [(Trig::Bc(0), Entity::PLACEHOLDER); 4];
    for (i, tr) in b.iter().take(4).enumerate() {
        let e = match tr { Trig::Ee(s, _) | Trig::EIns(s, _) | Trig::EMut(s, _) | Trig::ERem(s, _) | Trig::Desp(s) => st.ents[*s], _ => Entity::PLACEHOLDER };
        t[i] = (*tr, e);
    }
    DynBundle { n: b.len().min(4), t }
}

fn make_body(inst: usize, sh: Sh) -> impl FnMut(Readers, SystemEvent<SeP>, Commands, Local<u32>, ReactiveMut<Rc<0>>, ReactiveMut<Rc<1>>) + Send + Sync + 'static {
    let canary = Canary { inst, st: sh.clone() };
    let mut ordinal = 0u32;
    move |r: Readers, mut se: SystemEvent<SeP>, mut c: Commands, mut l: Local<u32>, mut q0: ReactiveMut<Rc<0>>, mut q1: ReactiveMut<Rc<1>>| {
        let _ = &canary;
        ordinal += 1; *l += 1;
        let (obs, held) = sample(&r, &mut se);
        let (acts, run_uid) = {
            let mut st = sh.lock().unwrap();
            let run_uid = st.next_run; st.next_run += 1;
            st.trace.push(Ev::RunStart { inst, run_uid, ordinal, local: *l, obs });
            if st.fuel == 0 { (vec![], run_uid) } else {
                st.fuel -= 1;
                let sc = &st.scripts[st.inst_script[inst]];
                (sc.get(ordinal as usize - 1).cloned().unwrap_or_default(), run_uid)
            }
        };
        drop(held);
        for a in acts { exec(&a, &mut c, &sh, run_uid, &mut q0, &mut q1); }
    }
}

fn exec(a: &Act, c: &mut Commands, sh: &Sh, run_uid: u32, q0: &mut ReactiveMut<Rc<0>>, q1: &mut ReactiveMut<Rc<1>>) {
    let mut st = sh.lock().unwrap();
    let mut new_id = |st: &mut St, kind: &'static str, target: Option<usize>| { let id = st.next_id; st.next_id += 1; st.trace.push(Ev::Create { id, sender: run_uid, kind, target }); id };
    match a.clone() {
        Act::Mark => { let id = st.next_id; st.next_id += 1; let sh2 = sh.clone(); c.queue(move |_: &mut World| sh2.lock().unwrap().trace.push(Ev::Mark(id))); }
        Act::Run(s) => { if st.published.is_empty() { return; } let sc = st.systems[st.published[s % st.published.len()]]; c.queue(sc); }
        Act::SendSe(s) => { if st.published.is_empty() { return; } let t = st.published[s % st.published.len()]; let sc = st.systems[t]; let id = new_id(&mut st, "se", Some(t)); drop(st); c.send_system_event(sc, SeP { id, st: sh.clone() }); }
        Act::Bc(t) => { let id = new_id(&mut st, if t == 0 { "bc0" } else { "bc1" }, None); drop(st);
            { let sh2 = sh.clone(); c.queue(move |_: &mut World| sh2.lock().unwrap().trace.push(Ev::PreTrig { id, bc: true, ty: t, entity: Entity::PLACEHOLDER, alive: true })); } if t == 0 { c.react().broadcast(BcP::<0> { id, st: sh.clone() }) } else { c.react().broadcast(BcP::<1> { id, st: sh.clone() }) } }
        Act::Ee(s, t) => { let e = st.ents[s]; let id = new_id(&mut st, if t == 0 { "ee0" } else { "ee1" }, None); drop(st);
            { let sh2 = sh.clone(); c.queue(move |w: &mut World| { let alive = w.get_entity(e).is_ok(); sh2.lock().unwrap().trace.push(Ev::PreTrig { id, bc: false, ty: t, entity: e, alive }); }); } if t == 0 { c.react().entity_event(e, EeP::<0> { id, st: sh.clone() }) } else { c.react().entity_event(e, EeP::<1> { id, st: sh.clone() }) } }
        Act::Insert(s, t) => { let e = st.ents[s]; drop(st); if t == 0 { c.react().insert(e, Rc::<0>(1)) } else { c.react().insert(e, Rc::<1>(1)) } }
        Act::Mutate(s, t) => { let e = st.ents[s]; drop(st); if t == 0 { if let Ok(v) = q0.get_mut(c, e) { v.0 += 1; } } else { if let Ok(v) = q1.get_mut(c, e) { v.0 += 1; } } }
        Act::Remove(s, t) => { let e = st.ents[s]; c.queue(move |w: &mut World| { if let Ok(mut em) = w.get_entity_mut(e) { if t == 0 { em.remove::<React<Rc<0>>>(); } else { em.remove::<React<Rc<1>>>(); } } }); }
        Act::DespawnEnt(s) => { let e = st.ents[s]; c.queue(move |w: &mut World| { w.get_entity_mut(e).ok().map(|e| e.despawn_recursive()); }); }
        Act::Respawn(s) => { let sh2 = sh.clone(); c.queue(move |w: &mut World| { let mut st = sh2.lock().unwrap(); if w.get_entity(st.ents[s]).is_err() { st.ents[s] = w.spawn_empty().id(); } }); }
        Act::Register { mode, bundle, script } => {
            let inst = st.systems.len();
            let b = dyn_bundle(&st, &bundle);
            let script = script % st.scripts.len();
            st.inst_script.push(script);
            let alive_flags: Arc<Mutex<Vec<bool>>> = Default::default();
            { let af = alive_flags.clone(); let bb = b; c.queue(move |w: &mut World| { *af.lock().unwrap() = bb.t[..bb.n].iter().map(|(_, e)| *e == Entity::PLACEHOLDER || w.get_entity(*e).is_ok()).collect(); }); }
            let sc = c.spawn_system_command(make_body(inst, sh.clone()));
            st.systems.push(sc);
            st.trace.push(Ev::Note(format!("register inst{} mode{} {:?} script{}", inst, mode, bundle, script)));
            drop(st);
            let m = match mode { 0 => ReactorMode::Persistent, 1 => ReactorMode::Cleanup, _ => ReactorMode::Revokable };
            let tok = c.react().with(b, sc, m);
            let sh2 = sh.clone();
            c.queue(move |_: &mut World| { let mut st = sh2.lock().unwrap(); st.published.push(inst);
                let tok_idx = tok.map(|t| { st.tokens.push(t); st.tokens.len() - 1 });
                let af = alive_flags.lock().unwrap();
                let trigs = b.t[..b.n].iter().zip(af.iter()).map(|((t, e), a)| (*t, *e, *a)).collect();
                st.trace.push(Ev::Registered { inst, mode, trigs, tok: tok_idx }); });
        }
        Act::Revoke(i) => { if st.tokens.is_empty() { return; } let ti = i % st.tokens.len(); let tok = st.tokens[ti].clone(); drop(st); c.react().revoke(tok);
            let sh2 = sh.clone(); c.queue(move |_: &mut World| sh2.lock().unwrap().trace.push(Ev::Revoked(ti))); }
        Act::DespawnSys(s) => { if st.published.is_empty() { return; } let inst = st.published[s % st.published.len()]; let sc = st.systems[inst]; let sh2 = sh.clone(); c.queue(move |w: &mut World| { w.get_entity_mut(*sc).ok().map(|e| e.despawn()); sh2.lock().unwrap().trace.push(Ev::SysDespawned(inst)); }); }
    }
}

fn gen_trig(r: &mut Rng) -> Trig {
    let s = r.below(NE); let t = r.below(2) as u8;
    match r.below(10) { 0 => Trig::Bc(t), 1 => Trig::Ee(s, t), 2 => Trig::AnyEe(t), 3 => Trig::Ins(t), 4 => Trig::Mut(t), 5 => Trig::Rem(t), 6 => Trig::EIns(s, t), 7 => Trig::EMut(s, t), 8 => Trig::ERem(s, t), _ => Trig::Desp(s) }
}
fn gen_bundle(r: &mut Rng) -> Vec<Trig> { let n = r.below(4); let mut b: Vec<Trig> = vec![]; while b.len() < n { let t = gen_trig(r); if !b.contains(&t) { b.push(t); } } b }
fn gen_act(r: &mut Rng, allow_reg: bool) -> Act {
    let s = r.below(NE); let t = r.below(2) as u8; let x = r.below(16);
    match r.below(if allow_reg { 100 } else { 84 }) {
        0..=5 => Act::Mark, 6..=15 => Act::Run(x), 16..=31 => Act::SendSe(x), 32..=43 => Act::Bc(t), 44..=53 => Act::Ee(s, t),
        54..=60 => Act::Insert(s, t), 61..=68 => Act::Mutate(s, t), 69..=73 => Act::Remove(s, t), 74..=77 => Act::DespawnEnt(s), 78..=80 => Act::Respawn(s),
        81..=83 => Act::DespawnSys(x), 84..=91 => Act::Revoke(x),
        _ => Act::Register { mode: r.below(3) as u8, bundle: gen_bundle(r), script: x },
    }
}
fn gen_script(r: &mut Rng) -> Vec<Vec<Act>> { (0..1 + r.below(4)).map(|_| (0..r.below(5)).map(|_| gen_act(r, true)).collect()).collect() }

fn run_program(seed: u64, verbose: bool) -> Result<(usize, usize), String> {
    let mut r = Rng(seed.wrapping_mul(0x9E3779B97F4A7C15) | 1);
    let mut app = App::new(); app.add_plugins(ReactPlugin);
    let world = app.world_mut();
    let ents = [world.spawn_empty().id(), world.spawn_empty().id(), world.spawn_empty().id()];
    let nscripts = 3 + r.below(4);
    let scripts: Vec<_> = (0..nscripts).map(|_| gen_script(&mut r)).collect();
    let sh: Sh = Arc::new(Mutex::new(St { trace: vec![], ents, systems: vec![], published: vec![], tokens: vec![], scripts, inst_script: vec![], fuel: 0, next_id: 1, next_run: 1 }));
    // driver body: executes a list of actions from outside any tree
    let nops = 3 + r.below(6);
    let mut runs = 0; let mut payloads = 0;
    for op in 0..nops {
        let acts: Vec<Act> = if op == 0 { (0..3 + r.below(3)).map(|_| Act::Register { mode: r.below(3) as u8, bundle: { let mut b = gen_bundle(&mut r); if b.is_empty() { b.push(gen_trig(&mut r)); } b }, script: r.below(16) }).collect() }
                             else { (0..1 + r.below(3)).map(|_| gen_act(&mut r, true)).collect() };
        { let mut st = sh.lock().unwrap(); st.fuel = 40; st.trace.push(Ev::OpStart(op)); st.trace.push(Ev::Note(format!("driver {:?}", acts))); }
        let sh2 = sh.clone();
        let res = std::panic::catch_unwind(std::panic::AssertUnwindSafe(|| {
            world.syscall_once((), move |mut c: Commands, mut q0: ReactiveMut<Rc<0>>, mut q1: ReactiveMut<Rc<1>>| { for a in &acts { exec(a, &mut c, &sh2, 0, &mut q0, &mut q1); } });
            garbage_collect_entities(world);
            schedule_removal_and_despawn_reactors(world);
            garbage_collect_entities(world);
        }));
        if res.is_err() { return Err(format!("seed {seed}: PANIC in op {op}\n{}", dump(&sh))); }
        let mut st = sh.lock().unwrap();
        st.trace.push(Ev::OpEnd(op));
        // census
        let alive_e = { let mut v: Vec<Entity> = st.ents.iter().copied().filter(|e| world.get_entity(*e).is_ok()).collect(); v.sort(); v.dedup(); v.len() };
        let alive_s = st.systems.iter().filter(|s| world.get_entity(***s).is_ok()).count();
        let total = world.entities().len() as usize;
        if total != alive_e + alive_s { drop(st); return Err(format!("seed {seed}: CENSUS op {op}: world has {total} entities, expected {alive_e}+{alive_s}\n{}", dump(&sh))); }
        // checks over trace so far
        if let Err(m) = check(&st.trace) { drop(st); return Err(format!("seed {seed}: {m}\n{}", dump(&sh))); }
        if let Err(m) = ledger_check(&st, world) { drop(st); return Err(format!("seed {seed}: {m}\n{}", dump(&sh))); }
        runs = st.trace.iter().filter(|e| matches!(e, Ev::RunStart { .. })).count();
        payloads = st.trace.iter().filter(|e| matches!(e, Ev::Create { .. })).count();
    }
    if verbose { println!("{}", dump(&sh)); }
    Ok((runs, payloads))
}

fn dump(sh: &Sh) -> String { let st = sh.lock().unwrap(); let mut s = String::new(); for (i, sc) in st.scripts.iter().enumerate() { s += &format!("  script{i}: {:?}\n", sc); } for e in &st.trace { s += &format!("    {:?}\n", e); } s }

fn check(trace: &[Ev]) -> Result<(), String> {
    let mut ordinals: HashMap<usize, u32> = HashMap::new();
    let mut created: HashMap<u32, (u32, &'static str, Option<usize>)> = HashMap::new();
    let mut dropped: HashMap<u32, usize> = HashMap::new();
    let mut seen_by: HashMap<(u32, usize), usize> = HashMap::new();
    let mut order: HashMap<(u32, usize), Vec<u32>> = HashMap::new(); // (sender run, observer inst) -> observed payload ids in order
    let mut open_op_end = 0usize;
    for (pos, e) in trace.iter().enumerate() {
        match e {
            Ev::RunStart { inst, ordinal, local, obs, .. } => {
                let o = ordinals.entry(*inst).or_default(); *o += 1;
                if *o != *ordinal || *o != *local { return Err(format!("STATE inst{inst}: expected ordinal {o}, closure {ordinal}, Local {local} @{pos}")); }
                if obs.count() > 1 { return Err(format!("IMPURE run of inst{inst} sees {:?} @{pos}", obs)); }
                if obs.se2.is_some() { return Err(format!("SECOND TAKE ok inst{inst} @{pos}")); }
                let ids: Vec<u32> = obs.bc.iter().flatten().copied().chain(obs.ee.iter().flatten().map(|x| x.1)).chain(obs.se.iter().copied()).collect();
                for id in ids {
                    if dropped.contains_key(&id) { return Err(format!("READ AFTER DROP payload {id} by inst{inst} @{pos}")); }
                    let Some((sender, kind, target)) = created.get(&id) else { return Err(format!("UNKNOWN payload {id} @{pos}")); };
                    if let Some(t) = target { if t != inst { return Err(format!("MISDELIVERED se payload {id} for inst{t} read by inst{inst} @{pos}")); } }
                    let n = seen_by.entry((id, *inst)).or_default(); *n += 1;
                    if *kind == "se" && *n > 1 { return Err(format!("DUPLICATE se payload {id} read twice by inst{inst} @{pos}")); }
                    order.entry((*sender, *inst)).or_default().push(id);
                }
            }
            Ev::Create { id, sender, kind, target } => { created.insert(*id, (*sender, *kind, *target)); }
            Ev::Drop(id) => { *dropped.entry(*id).or_default() += 1; if dropped[id] > 1 { return Err(format!("DOUBLE DROP {id} @{pos}")); } }
            Ev::OpEnd(_) => { open_op_end = pos; }
            _ => {}
        }
    }
    // conservation at last OpEnd
    for (id, _) in &created { let pos_created = trace.iter().position(|e| matches!(e, Ev::Create { id: i, .. } if i == id)).unwrap(); if pos_created < open_op_end && !dropped.contains_key(id) { return Err(format!("LEAKED payload {id} not dropped by op end")); } }
    // same-sender order (ids are allocated in send order within a run)
    for ((sender, inst), ids) in &order { if *sender == 0 { continue; } let mut dedup = ids.clone(); dedup.dedup(); let mut sorted = dedup.clone(); sorted.sort(); if sorted != dedup { return Err(format!("ORDER sender run {sender} -> inst{inst}: observed {:?}", ids)); } }
    Ok(())
}

fn main() {
    let args: Vec<String> = std::env::args().collect();
    let from: u64 = args.get(1).and_then(|s| s.parse().ok()).unwrap_or(1);
    let n: u64 = args.get(2).and_then(|s| s.parse().ok()).unwrap_or(2000);
    let verbose = args.get(3).is_some();
    if std::env::var("SMOKE_PANIC").is_err() { std::panic::set_hook(Box::new(|_| {})); }
    let (mut ok, mut bad, mut runs, mut pays) = (0, 0, 0usize, 0usize);
    let mut kinds: HashMap<String, (usize, u64)> = HashMap::new();
    for seed in from..from + n {
        match run_program(seed, verbose) {
            Ok((r, p)) => { ok += 1; runs += r; pays += p; }
            Err(m) => { bad += 1; let first = m.lines().next().unwrap().to_string(); let key: String = first.split(": ").nth(1).unwrap_or("").split_whitespace().next().unwrap_or("").to_string(); let e = kinds.entry(key).or_insert((0, seed)); e.0 += 1; if std::env::var("SMOKE_SHOW").is_ok() { println!("{m}"); } }
        }
    }
    println!("ok={ok} bad={bad} runs={runs} payloads={pays} kinds={:?}", kinds);
}

struct Reg { inst: usize, trig: Trig, ent: Entity, effective: bool, tok: Option<usize>, revoked: bool }

fn ledger_check(st: &St, world: &World) -> Result<(), String> {
    let mut regs: Vec<Reg> = vec![];
    let mut modes: HashMap<usize, u8> = HashMap::new();
    let mut sys_despawned: Vec<usize> = vec![];
    // payload id -> expected multiset of instances
    let mut expected: HashMap<u32, HashMap<usize, usize>> = HashMap::new();
    let mut observed: HashMap<u32, HashMap<usize, usize>> = HashMap::new();
    for e in &st.trace {
        match e {
            Ev::Registered { inst, mode, trigs, tok } => { modes.insert(*inst, *mode); for (t, en, a) in trigs { regs.push(Reg { inst: *inst, trig: *t, ent: *en, effective: *a, tok: *tok, revoked: false }); } }
            Ev::Revoked(ti) => { for r in regs.iter_mut() { if r.tok == Some(*ti) { r.revoked = true; } } }
            Ev::SysDespawned(i) => sys_despawned.push(*i),
            Ev::PreTrig { id, bc, ty, entity, alive } => {
                let m = expected.entry(*id).or_default();
                for r in &regs {
                    if r.revoked || !r.effective { continue; }
                    let hit = match (r.trig, *bc) {
                        (Trig::Bc(t), true) => t == *ty,
                        (Trig::Ee(_, t), false) => t == *ty && r.ent == *entity && *alive,
                        (Trig::AnyEe(t), false) => t == *ty && (*alive || !cfg!(feature = "fixed")),
                        _ => false,
                    };
                    if hit { *m.entry(r.inst).or_default() += 1; }
                }
            }
            Ev::RunStart { inst, obs, .. } => {
                for id in obs.bc.iter().flatten().copied().chain(obs.ee.iter().flatten().map(|x| x.1)) { *observed.entry(id).or_default().entry(*inst).or_default() += 1; }
            }
            _ => {}
        }
    }
    let inst_alive = |i: usize| world.get_entity(*st.systems[i]).is_ok();
    for (id, exp) in &expected {
        let empty = HashMap::new();
        let obs = observed.get(id).unwrap_or(&empty);
        for (inst, n) in obs { if exp.get(inst).copied().unwrap_or(0) < *n { return Err(format!("DISPATCH-EXTRA payload {id}: inst{inst} ran {n}x, expected {:?}", exp)); } }
        for (inst, n) in exp { let o = obs.get(inst).copied().unwrap_or(0); if o < *n && inst_alive(*inst) { return Err(format!("DISPATCH-MISSING payload {id}: inst{inst} ran {o}x of {n} and is alive; expected {:?} observed {:?}", exp, obs)); } }
    }
    for (id, obs) in &observed { if !expected.contains_key(id) && !obs.is_empty() { return Err(format!("DISPATCH-UNKNOWN payload {id} observed {:?}", obs)); } }
    // lifetime at quiescence
    for (inst, mode) in &modes {
        let refcount = regs.iter().filter(|r| r.inst == *inst && r.effective && !r.revoked && (r.ent == Entity::PLACEHOLDER || world.get_entity(r.ent).is_ok())).count();
        let expect_alive = !sys_despawned.contains(inst) && (*mode == 0 || refcount > 0);
        if expect_alive != inst_alive(*inst) { return Err(format!("LIFETIME inst{inst} mode{mode}: alive={} expected {} (refcount {refcount})", inst_alive(*inst), expect_alive)); }
    }
    Ok(())
}
