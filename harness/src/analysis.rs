//! Offline pass over a trace: indexes runs, commands, payloads, ops and replays the registration ledger
//! (the shadow state) from markers and sampled facts only.

use std::collections::HashMap;

use crate::program::{Entry, Flavour, Mode, Program};
use crate::trace::*;
use crate::types::*;

pub const DRIVER: Inst = usize::MAX;

#[derive(Clone, Debug)]
pub struct InstInfo {
    pub ent: u64,
    pub kind: SysKindTag,
    pub flavour: Flavour,
    pub script: usize,
    pub created_pos: usize,
    pub mode: Option<Mode>,
    /// Position of an explicit `DespawnSys` that found it alive.
    pub explicit_despawn: Option<usize>,
    pub canary_drops: Vec<usize>,
    pub published_pos: Option<usize>,
}

#[derive(Clone, Debug)]
pub struct RunRec {
    pub run: RunId,
    pub inst: Inst,
    pub ordinal: u32,
    pub local: u32,
    pub obs: Obs,
    pub pos: usize,
    pub body_end: Option<usize>,
    pub err: bool,
    pub cmds: Vec<usize>,
    /// Last position at which the system is still executing (its own deferred commands included).
    pub busy_end: usize,
    pub op: usize,
    pub in_poll: bool,
    pub fuel: u32,
    /// Innermost bracket (command index) that contains the RunStart.
    pub parent: Option<usize>,
    pub depth: usize,
    /// Started by the replay of a postponed command (from the runner hook).
    pub replay: bool,
    /// Runner hook positions of the invocation that executed this run: Enter, RunEnd, Exit.
    pub hook_enter: Option<usize>,
    pub hook_run_end: Option<usize>,
    pub hook_exit: Option<usize>,
}

#[derive(Clone, Debug)]
pub struct CmdRec {
    pub cmd: CmdId,
    pub run: RunId,
    pub seq: u32,
    pub act: RAct,
    pub issued_pos: usize,
    pub pre: Option<usize>,
    pub post: Option<usize>,
    pub notes: Vec<(usize, Note)>,
    pub probe_obs: Option<(usize, Obs)>,
    pub op: usize,
    pub in_poll: bool,
    pub parent: Option<usize>,
    pub depth: usize,
    /// Applied directly from inside the issuing body (exclusive systems), not queued.
    pub direct_in_body: bool,
}

#[derive(Clone, Debug)]
pub struct PayRec {
    pub id: PayId,
    /// 0 broadcast, 1 entity event, 2 system event
    pub kind: u8,
    pub ty: u8,
    pub cmd: usize,
    pub sender: RunId,
    pub target_inst: Option<Inst>,
    pub ent: Option<u64>,
    pub drops: Vec<usize>,
    /// (run index, position)
    pub reads: Vec<(usize, usize)>,
}

#[derive(Clone, Debug, Default)]
pub struct OpRec {
    pub op: usize,
    pub entry: Option<Entry>,
    pub run: RunId,
    pub start: usize,
    pub end: Option<usize>,
    pub poll_start: Option<usize>,
    pub poll_end: Option<usize>,
    pub snaps: [Option<usize>; 2],
    pub quiescent: Option<usize>,
}

#[derive(Clone, Copy, Debug, PartialEq, Eq)]
pub enum EndWhy {
    Revoked,
    EntityDied,
    Fired,
    OnceDone,
}

#[derive(Clone, Copy, Debug, PartialEq, Eq)]
pub enum Via {
    Register,
    With,
    WrAdd,
    EwAdd,
}

#[derive(Clone, Debug)]
pub struct Reg {
    pub inst: Inst,
    pub trig: RTrig,
    pub token: Option<usize>,
    pub cmd: usize,
    pub start: usize,
    /// The named entity existed when the registration was applied (always true for type-wide triggers).
    pub effective: bool,
    /// False for duplicates of an identical live registration (tolerance 6).
    pub certain: bool,
    pub end: Option<(usize, EndWhy)>,
    /// Despawn trigger: position at which the watched entity died.
    pub fired: Option<usize>,
    pub via: Via,
}

impl Reg {
    pub fn live_at(&self, p: usize) -> bool {
        self.effective && self.start < p && self.end.map(|(e, _)| e > p).unwrap_or(true)
    }
    /// Live during the whole closed interval.
    pub fn live_throughout(&self, a: usize, b: usize) -> bool {
        self.effective && self.start < a && self.end.map(|(e, _)| e > b).unwrap_or(true)
    }
    /// Live at some point of the interval.
    pub fn live_sometime(&self, a: usize, b: usize) -> bool {
        self.effective && self.start < b && self.end.map(|(e, _)| e > a).unwrap_or(true)
    }
}

#[derive(Clone, Debug)]
pub struct Removal {
    pub pos: usize,
    pub ent: u64,
    pub comp: u8,
    pub by_despawn: bool,
    pub cmd: usize,
    pub op: usize,
}

#[derive(Clone, Debug)]
pub struct EntDeath {
    pub pos: usize,
    pub ent: u64,
    pub cmd: usize,
    pub op: usize,
}

pub struct Analysis<'a> {
    pub prog: &'a Program,
    pub tr: &'a [Ev],
    pub end_pos: usize,
    pub panicked: Option<(usize, String)>,
    pub ent_idx: HashMap<u64, usize>,
    pub ents: Vec<u64>,
    pub insts: Vec<InstInfo>,
    pub inst_of_ent: HashMap<u64, Inst>,
    pub runs: Vec<RunRec>,
    pub run_idx: HashMap<RunId, usize>,
    pub cmds: Vec<CmdRec>,
    pub cmd_idx: HashMap<CmdId, usize>,
    pub pays: Vec<PayRec>,
    pub pay_idx: HashMap<PayId, usize>,
    pub ops: Vec<OpRec>,
    pub regs: Vec<Reg>,
    pub removals: Vec<Removal>,
    pub deaths: Vec<EntDeath>,
    /// token index -> (inst, triggers)
    pub tokens: Vec<(Inst, Vec<RTrig>)>,
    /// Per comp: position of the first registration attempt naming a removal trigger of that component.
    pub tracked_since: [Option<usize>; NT],
    /// Per position: innermost open bracket (command index).
    pub encl: Vec<Option<u32>>,
    /// Per position: number of runner invocations open (from hook Enter/Exit).
    pub runner_depth: Vec<u16>,
    /// Driver pseudo-runs (run id -> op).
    pub driver_runs: HashMap<RunId, usize>,
    /// Run indices per instance, in trace order (index = instance).
    pub runs_of_inst: Vec<Vec<usize>>,
    /// Largest command sequence number issued by each run.
    pub max_seq_of_run: HashMap<RunId, u32>,
    /// Entity world reactor local data model: (ew, ent) -> data, replayed over the trace at EwAdd applications.
    pub structural: Vec<String>,
}

impl<'a> Analysis<'a> {
    pub fn facts_at(&self, pos: usize) -> Option<&Facts> {
        match &self.tr[pos] {
            Ev::Pre { facts, .. } | Ev::Post { facts, .. } | Ev::OpEnd { facts, .. } | Ev::Quiescent { facts, .. } => {
                Some(facts)
            }
            _ => None,
        }
    }
    pub fn ent_alive_at(&self, pos: usize, ent: u64) -> Option<bool> {
        let f = self.facts_at(pos)?;
        let idx = *self.ent_idx.get(&ent)?;
        if idx >= f.comps.len() {
            return Some(false);
        }
        Some(f.ent_alive(idx))
    }
    pub fn comp_at(&self, pos: usize, ent: u64, comp: u8) -> Option<Option<u32>> {
        let f = self.facts_at(pos)?;
        let idx = *self.ent_idx.get(&ent)?;
        if idx >= f.comps.len() {
            return Some(None);
        }
        Some(f.comps[idx][comp as usize])
    }
    pub fn sys_alive_at(&self, pos: usize, inst: Inst) -> Option<bool> {
        Some(self.facts_at(pos)?.sys_alive(inst))
    }
    pub fn run_of(&self, run: RunId) -> Option<&RunRec> {
        self.run_idx.get(&run).map(|i| &self.runs[*i])
    }
    pub fn cmd_of(&self, cmd: CmdId) -> Option<&CmdRec> {
        self.cmd_idx.get(&cmd).map(|i| &self.cmds[*i])
    }
    /// True if a run of `inst` is executing at position `p` (its body or its deferred commands).
    pub fn busy_at(&self, inst: Inst, p: usize) -> bool {
        self.busy_run_at(inst, p).is_some()
    }
    /// The run of `inst` that is executing at `p`, if any (innermost = latest start).
    pub fn busy_run_at(&self, inst: Inst, p: usize) -> Option<usize> {
        let list = self.runs_of_inst.get(inst)?;
        // runs are in trace order: only those that started before `p` can be executing at `p`
        let n = list.partition_point(|i| self.runs[*i].pos < p);
        list[..n].iter().rev().copied().find(|i| p <= self.runs[*i].busy_end)
    }
    /// The runs that started strictly between two trace positions (runs are stored in trace order).
    pub fn runs_in(&self, after: usize, before: usize) -> &[RunRec] {
        let lo = self.runs.partition_point(|r| r.pos <= after);
        let hi = self.runs.partition_point(|r| r.pos < before);
        if lo <= hi {
            &self.runs[lo..hi]
        } else {
            &[]
        }
    }
    pub fn op_of_pos(&self, pos: usize) -> Option<&OpRec> {
        self.ops.iter().rev().find(|o| o.start <= pos)
    }
    /// Position of the last sampled-facts event at or before the end of op `op`'s tree.
    pub fn alive_at_op_end(&self, op: usize, inst: Inst) -> bool {
        self.ops.get(op).and_then(|o| o.end).and_then(|p| self.sys_alive_at(p, inst)).unwrap_or(false)
    }
    pub fn alive_at_poll_end(&self, op: usize, inst: Inst) -> bool {
        self.ops.get(op).and_then(|o| o.quiescent).and_then(|p| self.sys_alive_at(p, inst)).unwrap_or(false)
    }
    pub fn live_regs_at(&self, p: usize) -> impl Iterator<Item = &Reg> {
        self.regs.iter().filter(move |r| r.live_at(p))
    }
    pub fn is_refcounted(&self, inst: Inst) -> bool {
        let i = &self.insts[inst];
        match i.kind {
            SysKindTag::Once => true,
            SysKindTag::Reactor => matches!(i.mode, Some(Mode::Cleanup) | Some(Mode::Revokable)),
            _ => false,
        }
    }
}

fn trigs_of_act(act: &RAct) -> Option<(Inst, &Vec<RTrig>, Via)> {
    match act {
        RAct::Register { inst, bundle, .. } => Some((*inst, bundle, Via::Register)),
        RAct::With { inst, bundle } => Some((*inst, bundle, Via::With)),
        RAct::WrAdd { inst, bundle, .. } => Some((*inst, bundle, Via::WrAdd)),
        _ => None,
    }
}

pub fn ew_rtrigs(ew: u8, ent: u64) -> Vec<RTrig> {
    if ew == 0 {
        vec![RTrig::EMut(ent, 0), RTrig::Ee(ent, 0)]
    } else {
        vec![RTrig::EIns(ent, 1), RTrig::ERem(ent, 1)]
    }
}

fn removal_comp(t: &RTrig) -> Option<u8> {
    match t {
        RTrig::Rem(c) | RTrig::ERem(_, c) => Some(*c),
        _ => None,
    }
}

pub fn analyze<'a>(prog: &'a Program, tr: &'a [Ev]) -> Analysis<'a> {
    let mut a = Analysis {
        prog,
        tr,
        end_pos: tr.len(),
        panicked: None,
        ent_idx: HashMap::new(),
        ents: vec![],
        insts: vec![],
        inst_of_ent: HashMap::new(),
        runs: vec![],
        run_idx: HashMap::new(),
        cmds: vec![],
        cmd_idx: HashMap::new(),
        pays: vec![],
        pay_idx: HashMap::new(),
        ops: vec![],
        regs: vec![],
        removals: vec![],
        deaths: vec![],
        tokens: vec![],
        tracked_since: [None; NT],
        encl: Vec::with_capacity(tr.len()),
        runner_depth: Vec::with_capacity(tr.len()),
        driver_runs: HashMap::new(),
        runs_of_inst: vec![],
        max_seq_of_run: HashMap::new(),
        structural: vec![],
    };
    let mut stack: Vec<u32> = vec![];
    // open runner invocations: (Enter position, run executed by it)
    let mut hstack: Vec<(usize, Option<usize>)> = vec![];
    let mut rdepth: u16 = 0;
    let mut cur_op = 0usize;
    let mut in_poll = false;
    let mut early_canary: HashMap<Inst, Vec<usize>> = HashMap::new();
    for (pos, ev) in tr.iter().enumerate() {
        // bracket bookkeeping: `encl[pos]` is the innermost bracket open *around* this event
        let mut encl_here = stack.last().copied();
        match ev {
            Ev::End => {
                a.end_pos = pos;
                a.encl.push(encl_here);
                a.runner_depth.push(rdepth);
                break;
            }
            Ev::EntRegistered { idx, ent, .. } => {
                a.ent_idx.insert(*ent, *idx);
                if a.ents.len() <= *idx {
                    a.ents.resize(*idx + 1, 0);
                }
                a.ents[*idx] = *ent;
            }
            Ev::SysCreated { inst, ent, kind, flavour, script } => {
                if a.insts.len() <= *inst {
                    a.insts.resize(
                        *inst + 1,
                        InstInfo {
                            ent: 0,
                            kind: SysKindTag::Plain,
                            flavour: Flavour::Ord,
                            script: 0,
                            created_pos: usize::MAX,
                            mode: None,
                            explicit_despawn: None,
                            canary_drops: vec![],
                            published_pos: None,
                        },
                    );
                }
                a.insts[*inst] = InstInfo {
                    ent: *ent,
                    kind: *kind,
                    flavour: *flavour,
                    script: *script,
                    created_pos: pos,
                    mode: None,
                    explicit_despawn: None,
                    canary_drops: early_canary.remove(inst).unwrap_or_default(),
                    published_pos: None,
                };
                if matches!(kind, SysKindTag::WorldReactor(_) | SysKindTag::EntityWorldReactor(_) | SysKindTag::Probe) {
                    a.insts[*inst].mode = Some(Mode::Persistent);
                    a.insts[*inst].published_pos = Some(pos);
                }
                a.inst_of_ent.insert(*ent, *inst);
            }
            Ev::OpStart { op, entry, run } => {
                cur_op = *op;
                in_poll = false;
                if a.ops.len() <= *op {
                    a.ops.resize(*op + 1, OpRec::default());
                }
                a.ops[*op] = OpRec { op: *op, entry: Some(*entry), run: *run, start: pos, ..Default::default() };
                a.driver_runs.insert(*run, *op);
            }
            Ev::OpEnd { op, .. } => {
                a.ops[*op].end = Some(pos);
                if !stack.is_empty() {
                    a.structural.push(format!("unbalanced brackets at OpEnd of op {op}: {:?}", stack));
                    stack.clear();
                    encl_here = None;
                }
            }
            Ev::PollStart { op } => {
                a.ops[*op].poll_start = Some(pos);
                in_poll = true;
            }
            Ev::PollEnd { op } => {
                a.ops[*op].poll_end = Some(pos);
                in_poll = false;
            }
            Ev::Snapshot { op, phase, .. } => {
                a.ops[*op].snaps[*phase as usize] = Some(pos);
            }
            Ev::Quiescent { op, .. } => {
                a.ops[*op].quiescent = Some(pos);
            }
            Ev::RunStart { run, inst, ordinal, local, obs, fuel } => {
                let idx = a.runs.len();
                a.run_idx.insert(*run, idx);
                a.runs.push(RunRec {
                    run: *run,
                    inst: *inst,
                    ordinal: *ordinal,
                    local: *local,
                    obs: obs.clone(),
                    pos,
                    body_end: None,
                    err: false,
                    cmds: vec![],
                    busy_end: pos,
                    op: cur_op,
                    in_poll,
                    fuel: *fuel,
                    parent: encl_here.map(|c| c as usize),
                    depth: stack.len(),
                    hook_enter: hstack.last().map(|h: &(usize, Option<usize>)| h.0),
                    hook_run_end: None,
                    hook_exit: None,
                    replay: hstack
                        .last()
                        .map(|h| h.0 > 0 && matches!(&tr[h.0 - 1], Ev::Hook(HookEv::Replay { .. })))
                        .unwrap_or(false),
                });
                if let Some(h) = hstack.last_mut() {
                    if h.1.is_none() {
                        h.1 = Some(idx);
                    }
                }
                for id in obs.payload_ids().into_iter().chain(obs.se2.iter().flatten().copied()) {
                    if let Some(pi) = a.pay_idx.get(&id) {
                        a.pays[*pi].reads.push((idx, pos));
                    } else {
                        a.structural.push(format!("run {run} read unknown payload {id} @{pos}"));
                    }
                }
            }
            Ev::BodyEnd { run, err } => {
                if let Some(i) = a.run_idx.get(run) {
                    let r = &mut a.runs[*i];
                    r.body_end = Some(pos);
                    r.err = *err;
                    r.busy_end = r.busy_end.max(pos);
                }
            }
            Ev::Issued { run, seq, cmd, act } => {
                let idx = a.cmds.len();
                a.cmd_idx.insert(*cmd, idx);
                a.cmds.push(CmdRec {
                    cmd: *cmd,
                    run: *run,
                    seq: *seq,
                    act: act.clone(),
                    issued_pos: pos,
                    pre: None,
                    post: None,
                    notes: vec![],
                    probe_obs: None,
                    op: cur_op,
                    in_poll,
                    parent: None,
                    depth: 0,
                    direct_in_body: false,
                });
                if let Some(i) = a.run_idx.get(run) {
                    a.runs[*i].cmds.push(idx);
                }
                let (kind, ty, target_inst, ent, pay) = match act {
                    RAct::Broadcast { ty, pay } => (0u8, *ty, None, None, Some(*pay)),
                    RAct::EntityEv { ent, ty, pay } => (1, *ty, None, Some(*ent), Some(*pay)),
                    RAct::SendSe { inst, ty, pay } => (2, *ty, Some(*inst), None, Some(*pay)),
                    RAct::SendSeEnt { ent, ty, pay } => (2, *ty, None, Some(*ent), Some(*pay)),
                    _ => (0, 0, None, None, None),
                };
                if let Some(id) = pay {
                    a.pay_idx.insert(id, a.pays.len());
                    a.pays.push(PayRec { id, kind, ty, cmd: idx, sender: *run, target_inst, ent, drops: vec![], reads: vec![] });
                }
            }
            Ev::Pre { cmd, .. } => {
                if let Some(i) = a.cmd_idx.get(cmd).copied() {
                    a.cmds[i].pre = Some(pos);
                    a.cmds[i].direct_in_body = a.run_idx.get(&a.cmds[i].run).map(|ri| a.runs[*ri].body_end.is_none()).unwrap_or(false);
                    a.cmds[i].parent = encl_here.map(|c| c as usize);
                    a.cmds[i].depth = stack.len();
                    stack.push(i as u32);
                } else {
                    a.structural.push(format!("Pre for unknown cmd {cmd} @{pos}"));
                }
            }
            Ev::Post { cmd, .. } => {
                if let Some(i) = a.cmd_idx.get(cmd).copied() {
                    a.cmds[i].post = Some(pos);
                    if stack.last().copied() == Some(i as u32) {
                        stack.pop();
                    } else {
                        a.structural.push(format!("Post({cmd}) does not close the innermost bracket {:?} @{pos}", stack.last()));
                        if let Some(p) = stack.iter().rposition(|c| *c == i as u32) {
                            stack.truncate(p);
                        }
                    }
                    // the run that issued it stays busy at least until here
                    let run = a.cmds[i].run;
                    if let Some(ri) = a.run_idx.get(&run) {
                        let r = &mut a.runs[*ri];
                        r.busy_end = r.busy_end.max(pos);
                    }
                    encl_here = stack.last().copied();
                }
            }
            Ev::Applied { cmd, note } => {
                if let Some(i) = a.cmd_idx.get(cmd).copied() {
                    a.cmds[i].notes.push((pos, note.clone()));
                    match note {
                        Note::Removed { ent, comp, had: true } => {
                            a.removals.push(Removal { pos, ent: *ent, comp: *comp, by_despawn: false, cmd: i, op: cur_op });
                        }
                        // (despawns are taken from `Ev::EntGone`, written by the marker component's hook at the instant an
                        // entity goes, whatever despawned it: command, recursion, garbage collection)
                        Note::SysDespawned { inst, was_alive: true } => {
                            a.insts[*inst].explicit_despawn = Some(pos);
                        }
                        Note::Registered { inst, .. } => {
                            a.insts[*inst].published_pos = Some(pos);
                        }
                        _ => {}
                    }
                }
            }
            Ev::EntGone { ent, had } => {
                let ci = encl_here.map(|c| c as usize).unwrap_or(0);
                for c in 0..NT {
                    if had[c] {
                        a.removals.push(Removal { pos, ent: *ent, comp: c as u8, by_despawn: true, cmd: ci, op: cur_op });
                    }
                }
                a.deaths.push(EntDeath { pos, ent: *ent, cmd: ci, op: cur_op });
            }
            Ev::ProbeObs { cmd, obs } => {
                if let Some(i) = a.cmd_idx.get(cmd).copied() {
                    a.cmds[i].probe_obs = Some((pos, obs.clone()));
                }
            }
            Ev::PayloadDrop { id } => {
                if let Some(pi) = a.pay_idx.get(id) {
                    a.pays[*pi].drops.push(pos);
                }
            }
            Ev::CanaryDrop { inst } => {
                match a.insts.get_mut(*inst) {
                    Some(i) if i.created_pos != usize::MAX => i.canary_drops.push(pos),
                    // (a reactor registered through `on` is only identified when its registration is published; it may
                    // already have been collected by then)
                    _ => early_canary.entry(*inst).or_default().push(pos),
                }
            }
            Ev::Hook(h) => match h {
                HookEv::Enter { .. } => {
                    rdepth += 1;
                    hstack.push((pos, None));
                }
                HookEv::RunEnd { .. } => {
                    if let Some((_, Some(ri))) = hstack.last() {
                        a.runs[*ri].hook_run_end = Some(pos);
                    }
                }
                HookEv::Exit { .. } => {
                    rdepth = rdepth.saturating_sub(1);
                    if let Some((_, Some(ri))) = hstack.pop() {
                        a.runs[ri].hook_exit = Some(pos);
                    }
                }
                _ => {}
            },
            Ev::Panic { op, msg } => {
                a.panicked = Some((*op, msg.clone()));
            }
        }
        a.encl.push(encl_here);
        a.runner_depth.push(rdepth);
    }
    // An execution that panicked while a system was being created may name instances whose creation was never logged.
    let max_named = a
        .cmds
        .iter()
        .filter_map(|c| match &c.act {
            RAct::Register { inst, .. } | RAct::SpawnSys { inst, .. } | RAct::With { inst, .. } | RAct::WrAdd { inst, .. } | RAct::EwAdd { inst, .. } => Some(*inst),
            _ => None,
        })
        .max();
    if let Some(m) = max_named {
        if a.insts.len() <= m {
            a.insts.resize(
                m + 1,
                InstInfo {
                    ent: 0,
                    kind: SysKindTag::Plain,
                    flavour: Flavour::Ord,
                    script: 0,
                    created_pos: a.end_pos,
                    mode: None,
                    explicit_despawn: None,
                    canary_drops: vec![],
                    published_pos: None,
                },
            );
        }
    }
    let n_inst = a.insts.len().max(a.runs.iter().map(|r| r.inst + 1).max().unwrap_or(0));
    a.runs_of_inst = vec![vec![]; n_inst];
    for (i, r) in a.runs.iter().enumerate() {
        a.runs_of_inst[r.inst].push(i);
    }
    for c in a.cmds.iter() {
        let e = a.max_seq_of_run.entry(c.run).or_insert(0);
        *e = (*e).max(c.seq);
    }
    build_ledger(&mut a);
    a
}

fn build_ledger(a: &mut Analysis) {
    // modes of instances
    for c in a.cmds.iter() {
        if let RAct::Register { inst, mode, .. } = &c.act {
            a.insts[*inst].mode = Some(*mode);
        }
    }
    // Replay registration-affecting events in trace order. Each is keyed by its position.
    #[derive(Debug)]
    enum LEv {
        Reg(usize),      // command index: registering command applied (at Post)
        Revoke(usize),   // command index (Revoke / WrRemove / EwRemove) at Post
        Death(usize),    // index into deaths
        RunStart(usize), // run index
    }
    let mut evs: Vec<(usize, LEv)> = vec![];
    for (i, c) in a.cmds.iter().enumerate() {
        let Some(post) = c.post else { continue };
        match &c.act {
            // keyed at `Pre`: nothing but the registration itself runs between the two markers and its own commands, so
            // whatever else happens inside the bracket (an entity released for auto-despawn may be collected by a
            // collection the registration command performs) happens to a registration that is already in place
            RAct::Register { .. } | RAct::With { .. } | RAct::WrAdd { .. } | RAct::EwAdd { .. } => evs.push((c.pre.unwrap_or(post), LEv::Reg(i))),
            RAct::Revoke { .. } | RAct::WrRemove { .. } | RAct::EwRemove { .. } => evs.push((post, LEv::Revoke(i))),
            _ => {}
        }
    }
    for (i, d) in a.deaths.iter().enumerate() {
        evs.push((d.pos, LEv::Death(i)));
    }
    for (i, r) in a.runs.iter().enumerate() {
        evs.push((r.pos, LEv::RunStart(i)));
    }
    evs.sort_by_key(|e| e.0);

    let mut regs: Vec<Reg> = vec![];
    let mut tokens: Vec<(Inst, Vec<RTrig>)> = vec![];
    let mut once_done: Vec<bool> = vec![false; a.insts.len()];
    for (pos, ev) in evs {
        match ev {
            LEv::Reg(ci) => {
                let c = &a.cmds[ci];
                let pre = c.pre.unwrap_or(pos);
                let (inst, trigs, via, token): (Inst, Vec<RTrig>, Via, Option<usize>) = match &c.act {
                    RAct::EwAdd { ew, inst, ent, .. } => {
                        // `EntityReactor::add` does nothing if the entity does not exist.
                        if a.ent_alive_at(pre, *ent) != Some(true) {
                            for t in ew_rtrigs(*ew, *ent) {
                                if let Some(comp) = removal_comp(&t) {
                                    let _ = comp; // no registration attempt at all in this case
                                }
                            }
                            continue;
                        }
                        (*inst, ew_rtrigs(*ew, *ent), Via::EwAdd, None)
                    }
                    act => {
                        let (inst, b, via) = trigs_of_act(act).unwrap();
                        let token = c.notes.iter().find_map(|(_, n)| match n {
                            Note::Registered { token, .. } => *token,
                            _ => None,
                        });
                        (inst, b.clone(), via, token)
                    }
                };
                if let Some(t) = token {
                    if tokens.len() <= t {
                        tokens.resize(t + 1, (0, vec![]));
                    }
                    tokens[t] = (inst, trigs.clone());
                }
                for t in trigs {
                    if let Some(comp) = removal_comp(&t) {
                        if a.tracked_since[comp as usize].is_none() {
                            a.tracked_since[comp as usize] = Some(pre);
                        }
                    }
                    let effective = match t.entity() {
                        Some(e) => a.ent_alive_at(pre, e) == Some(true),
                        None => true,
                    };
                    let dup = regs.iter().any(|r| r.inst == inst && r.trig == t && r.live_at(pos));
                    regs.push(Reg {
                        inst,
                        trig: t,
                        token,
                        cmd: ci,
                        start: pre,
                        effective,
                        certain: !dup,
                        end: None,
                        fired: None,
                        via,
                    });
                }
            }
            LEv::Revoke(ci) => {
                let c = &a.cmds[ci];
                let (inst, trigs): (Inst, Vec<RTrig>) = match &c.act {
                    RAct::Revoke { token } => match tokens.get(*token) {
                        Some((i, t)) => (*i, t.clone()),
                        None => continue,
                    },
                    RAct::WrRemove { inst, bundle, .. } | RAct::EwRemove { inst, bundle, .. } => (*inst, bundle.clone()),
                    _ => continue,
                };
                for t in trigs {
                    if t.is_type_wide() || matches!(t, RTrig::Desp(_)) {
                        // one entry is removed; identical remaining entries become uncertain (tolerance 6)
                        let mut removed = false;
                        for r in regs.iter_mut() {
                            if r.inst == inst && r.trig == t && r.live_at(pos) {
                                if !removed {
                                    r.end = Some((pos, EndWhy::Revoked));
                                    removed = true;
                                } else {
                                    r.certain = false;
                                }
                            }
                        }
                    } else {
                        for r in regs.iter_mut() {
                            if r.inst == inst && r.trig == t && r.live_at(pos) {
                                r.end = Some((pos, EndWhy::Revoked));
                            }
                        }
                    }
                }
            }
            LEv::Death(di) => {
                let ent = a.deaths[di].ent;
                for r in regs.iter_mut() {
                    if r.trig.entity() == Some(ent) && r.live_at(pos) {
                        if matches!(r.trig, RTrig::Desp(_)) {
                            if r.fired.is_none() {
                                r.fired = Some(pos);
                            }
                        } else {
                            r.end = Some((pos, EndWhy::EntityDied));
                        }
                    }
                }
            }
            LEv::RunStart(ri) => {
                let run = &a.runs[ri];
                let inst = run.inst;
                if inst >= a.insts.len() {
                    continue;
                }
                if a.insts[inst].kind == SysKindTag::Once && !once_done[inst] {
                    once_done[inst] = true;
                    // The wrapper revokes its triggers right after the body's deferred commands have been applied:
                    // until then the registrations still schedule it (and the scheduled reaction is then skipped
                    // because the system is gone).
                    let until = run.busy_end.max(pos) + 1;
                    for r in regs.iter_mut() {
                        if r.inst == inst && r.end.map(|(e, _)| e > until).unwrap_or(true) {
                            r.end = Some((until, EndWhy::OnceDone));
                        }
                    }
                }
                if let Some(e) = run.obs.desp {
                    // the despawn reaction for (inst, e) is being delivered: its registration is consumed
                    if let Some(r) = regs
                        .iter_mut()
                        .find(|r| r.inst == inst && r.trig == RTrig::Desp(e) && r.fired.is_some() && r.end.is_none())
                    {
                        r.end = Some((pos, EndWhy::Fired));
                    }
                }
            }
        }
    }
    // Despawn registrations that fired but whose reactor never ran (dead or revoked meanwhile) end at the poll that
    // follows the death: close them at the end of that op's poll phase.
    for r in regs.iter_mut() {
        if let (Some(f), None) = (r.fired, r.end) {
            let op = a.ops.iter().rev().find(|o| o.start <= f);
            if let Some(pe) = op.and_then(|o| o.poll_end) {
                r.end = Some((pe, EndWhy::Fired));
            }
        }
    }
    a.regs = regs;
    a.tokens = tokens;
}
