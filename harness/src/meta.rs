//! C11 metamorphic stage: a tree behaves the same whatever (neutral) trees ran before it on the same world.
//!
//! For a program `[.., X]` a variant `[.., N1..Nk, X]` is built where the `N` ops are candidates for being neutral
//! (probes, manual runs and recursion of a dedicated system, commands to dead systems, events to dead entities,
//! explicit polls / collections). Whether they really were neutral is decided from the trace (no registration,
//! liveness or value changed, and no instance that takes part in X ran). For neutral prefixes the normalised trace
//! of X must be identical in both worlds.

use std::collections::{BTreeMap, BTreeSet};
use std::sync::Arc;

use crate::analysis::analyze;
use crate::exec::execute;
use crate::program::*;
use crate::trace::*;
use crate::types::*;

fn neutral_candidates(r: &mut Rng) -> Vec<Op> {
    let n = r.range(1, 4);
    (0..n)
        .map(|_| {
            let acts: Vec<Act> = (0..r.range(1, 3))
                .map(|_| match r.below(10) {
                    0 => Act::Probe(false),
                    1 => Act::Probe(true),
                    2 | 3 => Act::Run(0),       // the dedicated recursion system (published[0])
                    4 => Act::SendSe(0, 0),
                    5 => Act::Run(1),           // the dead system (published[1])
                    6 => Act::SendSe(1, 1),
                    7 => Act::EntityEv(3 + NE as u8, 0), // stale id of slot 3 (dead after the base prefix)
                    8 => Act::Poll,
                    _ => Act::Gc,
                })
                .collect();
            Op { entry: if r.chance(50) { Entry::Syscall } else { Entry::WorldApi }, acts }
        })
        .collect()
}

/// Normalised view of the trace segment of op `op`.
fn segment(tr: &[Ev], op: usize) -> Vec<String> {
    let mut out = vec![];
    let mut inside = false;
    let mut ents: BTreeMap<u64, usize> = BTreeMap::new();
    let mut pays: BTreeMap<u32, usize> = BTreeMap::new();
    let mut ent = |e: u64, m: &mut BTreeMap<u64, usize>| {
        let n = m.len();
        *m.entry(e).or_insert(n)
    };
    for e in tr {
        match e {
            Ev::OpStart { op: o, .. } => inside = *o == op,
            Ev::Quiescent { op: o, snap, .. } if *o == op => {
                out.push(format!("Q tables={:?} ents={} storages={}", snap.tables, snap.entity_reactor_entries, snap.storages));
                inside = false;
            }
            _ if !inside => {}
            Ev::RunStart { inst, obs, .. } => {
                let seen: Vec<String> = obs
                    .seen()
                    .iter()
                    .map(|s| match s {
                        Seen::Bc(t, p) => format!("bc{t}:{}", { let n = pays.len(); *pays.entry(*p).or_insert(n) }),
                        Seen::Ee(t, e, p) => format!("ee{t}:{}:{}", ent(*e, &mut ents), { let n = pays.len(); *pays.entry(*p).or_insert(n) }),
                        Seen::Se(t, p) => format!("se{t}:{}", { let n = pays.len(); *pays.entry(*p).or_insert(n) }),
                        Seen::Ins(c, e) => format!("ins{c}:{}", ent(*e, &mut ents)),
                        Seen::Mut(c, e) => format!("mut{c}:{}", ent(*e, &mut ents)),
                        Seen::Rem(c, e) => format!("rem{c}:{}", ent(*e, &mut ents)),
                        Seen::Desp(e) => format!("desp:{}", ent(*e, &mut ents)),
                    })
                    .collect();
                out.push(format!("run inst{inst} {:?} local={:?}", seen, obs.ew_local.map(|x| x.1)));
            }
            Ev::Issued { act, .. } => {
                let s = format!("{:?}", act);
                out.push(format!("issue {}", s.split(|c: char| !c.is_alphanumeric()).next().unwrap_or("")));
            }
            Ev::Hook(h) => {
                let s = format!("{:?}", h);
                out.push(format!("hook {}", s.split(|c: char| !c.is_alphanumeric()).next().unwrap_or("")));
            }
            Ev::PayloadDrop { id } => out.push(format!("drop {}", { let n = pays.len(); *pays.entry(*id).or_insert(n) })),
            Ev::CanaryDrop { inst } => out.push(format!("canary inst{inst}")),
            Ev::BodyEnd { err, .. } => out.push(format!("end err={err}")),
            _ => {}
        }
    }
    out
}

pub struct MetaOutcome {
    pub pairs_tried: usize,
    pub pairs_compared: usize,
    pub prefix_faults: usize,
    pub violations: Vec<(String, String, Program)>,
    pub sample: Option<serde_json::Value>,
}

pub fn run_pairs(seed: u64, n: usize, profile: &Profile) -> MetaOutcome {
    let mut out = MetaOutcome { pairs_tried: 0, pairs_compared: 0, prefix_faults: 0, violations: vec![], sample: None };
    for k in 0..n {
        let mut r = Rng::new(seed.wrapping_mul(48271).wrapping_add(k as u64));
        let mut base = gen_program(seed.wrapping_mul(69621).wrapping_add(k as u64), profile);
        // the stage relies on `published[0..2]` being its own systems: nothing is registered while the app is built
        base.app_reactors.clear();
        // dedicated systems first: published[0] = recursion system (script 0), published[1] = system that is killed
        base.scripts.insert(0, Script { runs: vec![vec![Act::Mark, Act::Run(0), Act::SendSe(0, 0)], vec![Act::Mark], vec![]], cyclic: true });
        base.scripts.insert(1, Script { runs: vec![], cyclic: false });
        let mut setup = vec![Act::SpawnSys { flavour: Flavour::Ord, script: 0 }, Act::SpawnSys { flavour: Flavour::Excl, script: 1 }];
        // shift the script references of the original setup by the two inserted scripts: they are taken modulo the
        // number of scripts at run time, so any value is valid; keep as is.
        setup.extend(base.ops[0].acts.clone());
        base.ops[0].acts = setup;
        base.ops.insert(1, Op { entry: Entry::Syscall, acts: vec![Act::DespawnSys(1), Act::DespawnEnt(3)] });
        if base.ops.len() < 4 {
            continue;
        }
        let x = base.ops.len() - 1;
        let mut variant = base.clone();
        let prefix = neutral_candidates(&mut r);
        let k_prefix = prefix.len();
        for (i, op) in prefix.into_iter().enumerate() {
            variant.ops.insert(x + i, op);
        }
        out.pairs_tried += 1;
        let pb = Arc::new(base.clone());
        let pv = Arc::new(variant.clone());
        let eb = execute(&pb);
        let ev = execute(&pv);
        if eb.panicked.is_some() || ev.panicked.is_some() {
            continue;
        }
        // neutrality of the prefix, judged from the variant's trace
        let av = analyze(&pv, &ev.trace);
        let q_before = av.ops.get(x - 1).and_then(|o| o.quiescent);
        let q_after = av.ops.get(x + k_prefix - 1).and_then(|o| o.quiescent);
        let (Some(qb), Some(qa)) = (q_before, q_after) else { continue };
        let (Ev::Quiescent { snap: sb, facts: fb, ew_local: lb, .. }, Ev::Quiescent { snap: sa, facts: fa, ew_local: la, .. }) = (&ev.trace[qb], &ev.trace[qa]) else { continue };
        let same_state = sb.tables == sa.tables
            && sb.entity_reactor_entries == sa.entity_reactor_entries
            && sb.storages == sa.storages
            && sb.world_entities == sa.world_entities
            && fb == fa
            && lb == la;
        let regs_changed = av.regs.iter().any(|g| (g.start > qb && g.start < qa) || matches!(g.end, Some((p, _)) if p > qb && p < qa));
        let prefix_insts: BTreeSet<usize> = av.runs.iter().filter(|run| run.pos > qb && run.pos < qa).map(|run| run.inst).collect();
        let mut x_insts: BTreeSet<usize> = av.runs.iter().filter(|run| run.pos > qa).map(|run| run.inst).collect();
        // instances whose state is released in X count as taking part in X as well (the zero-sized body creates its
        // canary on its first run, so whether the prefix ran it would show)
        for (i, info) in av.insts.iter().enumerate() {
            if info.canary_drops.iter().any(|p| *p > qa) || info.explicit_despawn.map(|p| p > qa).unwrap_or(false) {
                x_insts.insert(i);
            }
        }
        let tokens_before = av.cmds.iter().filter(|c| matches!(c.act, RAct::Register { .. }) && c.issued_pos > qb && c.issued_pos < qa).count();
        if !same_state || regs_changed || tokens_before > 0 || prefix_insts.intersection(&x_insts).next().is_some() {
            continue;
        }
        // instance numbering must agree (no instance created in the prefix)
        if av.insts.iter().any(|i| i.created_pos > qb && i.created_pos < qa) {
            continue;
        }
        out.pairs_compared += 1;
        let faults = ev.trace[qb..qa]
            .iter()
            .filter(|e| matches!(e, Ev::Hook(HookEv::Abort { .. }) | Ev::Hook(HookEv::Postponed { .. }) | Ev::Hook(HookEv::Discard { .. })))
            .count();
        if faults > 0 {
            out.prefix_faults += 1;
        }
        let seg_b = segment(&eb.trace, x);
        let seg_v = segment(&ev.trace, x + k_prefix);
        if out.sample.is_none() && faults > 0 {
            out.sample = Some(serde_json::json!({"base_program": base, "neutral_prefix_ops": &variant.ops[x..x + k_prefix], "normalised_trace_of_X_len": seg_b.len(), "first_events": seg_b.iter().take(12).collect::<Vec<_>>()}));
        }
        if seg_b != seg_v {
            let at = seg_b.iter().zip(seg_v.iter()).position(|(a, b)| a != b).unwrap_or(seg_b.len().min(seg_v.len()));
            out.violations.push((
                "C11/metamorphic/tree-depends-on-earlier-trees".to_string(),
                format!(
                    "tree X behaves differently after a neutral prefix: first difference at event {at}: fresh={:?} after-prefix={:?}",
                    seg_b.get(at),
                    seg_v.get(at)
                ),
                variant,
            ));
        }
    }
    out
}
