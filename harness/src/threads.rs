//! C10 engine: auto-despawn as an exact reference count.
//!  (a) single-threaded op sequences against an exact shadow model,
//!  (b) worker threads dropping / cloning signals while the main thread collects, judged with two conservative
//!      atomic counters (`pre` <= real count <= `post` at all times).

use bevy::prelude::*;
use bevy_cobweb::prelude::*;
use serde::{Deserialize, Serialize};
use serde_json::json;
use std::collections::{BTreeMap, BTreeSet};
use std::sync::atomic::{AtomicBool, AtomicI64, Ordering};
use std::sync::Arc;
use std::time::{Duration, Instant};

use crate::program::Rng;

pub const NENT: usize = 6;

#[derive(Clone, Debug, PartialEq, Eq, Serialize, Deserialize)]
pub enum AOp {
    Prepare(u8),
    Clone(u8),
    Drop(u8),
    Gc,
    /// `App::update()`: garbage collection runs in `Last`.
    Update,
    ManualDespawn(u8),
    Reparent(u8, u8),
    Respawn(u8),
    /// Moves one clone of the second entity's signal into a component of the first entity: it is dropped when that
    /// entity is despawned - possibly in the middle of a collection (ownership chains).
    #[serde(alias = "Attach")]
    Attach(u8, u8),
}

#[derive(Component, Default)]
struct Holder(Vec<AutoDespawnSignal>);

struct Shadow {
    alive: [bool; NENT],
    clones: [usize; NENT],
    /// released (all clones dropped) but not yet collected
    pending: Vec<usize>,
    parent: [Option<usize>; NENT],
    /// signals owned by a component of the entity (indices of the entities they keep alive)
    held: [Vec<usize>; NENT],
    /// number of clones released because their owner entity died (chain releases)
    chain_releases: u32,
}

impl Shadow {
    fn kill_subtree(&mut self, e: usize) {
        if !self.alive[e] {
            return;
        }
        self.alive[e] = false;
        self.parent[e] = None;
        for b in std::mem::take(&mut self.held[e]) {
            self.clones[b] -= 1;
            self.chain_releases += 1;
            if self.clones[b] == 0 {
                self.pending.push(b);
            }
        }
        for c in 0..NENT {
            if self.parent[c] == Some(e) {
                self.kill_subtree(c);
            }
        }
    }
    fn is_descendant(&self, x: usize, of: usize) -> bool {
        let mut cur = self.parent[x];
        let mut guard = 0;
        while let Some(p) = cur {
            if p == of {
                return true;
            }
            cur = self.parent[p];
            guard += 1;
            if guard > NENT {
                break;
            }
        }
        false
    }
}

pub struct SeqOutcome {
    pub violations: Vec<(String, String)>,
    pub gcs: u32,
    pub gc_between_drops: u32,
    pub shape: u64,
    pub applied: Vec<String>,
    /// follow-up collections needed because an entity was released in the middle of a collection
    pub chain_gcs: u32,
}

pub fn gen_seq(seed: u64) -> Vec<AOp> {
    let mut r = Rng::new(seed ^ 0xA070);
    let n = r.range(8, 60);
    (0..n)
        .map(|_| {
            let e = r.below(NENT) as u8;
            match r.below(23) {
                0..=3 => AOp::Prepare(e),
                4..=7 => AOp::Clone(e),
                8..=12 => AOp::Drop(e),
                13..=14 => AOp::Gc,
                15 => AOp::Update,
                16 => AOp::ManualDespawn(e),
                17..=18 => AOp::Reparent(e, r.below(NENT) as u8),
                19 => AOp::Respawn(e),
                _ => AOp::Attach(e, r.below(NENT) as u8),
            }
        })
        .collect()
}

/// World reactor used only to exercise `App::add_world_reactor_with` as the first thing done to an app.
struct StartWr;
impl WorldReactor for StartWr {
    type StartingTriggers = BroadcastTrigger<u8>;
    type Triggers = BroadcastTrigger<u8>;
    fn reactor(self) -> SystemCommandCallback {
        SystemCommandCallback::new(|| {})
    }
}

/// The ways an app that can collect released entities may be assembled; every one of them must end up with the
/// collection scheduled in `Last`. (The order is derived from the sequence so that replay files need no extra field.)
pub fn build_app(order: usize) -> App {
    let mut app = App::new();
    match order % 6 {
        0 => {
            app.setup_auto_despawn();
        }
        1 => {
            app.add_plugins(ReactPlugin);
        }
        2 => {
            app.add_reactor(broadcast::<u8>(), || {});
            app.add_plugins(ReactPlugin);
        }
        3 => {
            app.add_world_reactor_with(StartWr, broadcast::<u8>());
            app.add_plugins(ReactPlugin);
        }
        4 => {
            app.add_plugins(ReactPlugin);
            app.add_reactor(broadcast::<u8>(), || {});
            app.setup_auto_despawn();
        }
        _ => {
            app.add_reactor(broadcast::<u8>(), || {});
        }
    }
    app
}

pub fn run_seq(ops: &[AOp]) -> SeqOutcome {
    let mut app = build_app(ops.len());
    let mut ents: Vec<Entity> = (0..NENT).map(|_| app.world_mut().spawn_empty().id()).collect();
    let mut signals: Vec<Vec<AutoDespawnSignal>> = (0..NENT).map(|_| vec![]).collect();
    let mut sh = Shadow { alive: [true; NENT], clones: [0; NENT], pending: vec![], parent: [None; NENT], held: Default::default(), chain_releases: 0 };
    let mut violations = vec![];
    let mut gcs = 0;
    let mut gc_between = 0;
    let mut shape = 0xcbf29ce484222325u64;
    let mut applied = vec![];
    let mut dropped_some = [false; NENT];
    let mut chain_gcs = 0u32;
    for (i, op) in ops.iter().enumerate() {
        let mut tag = 0u64;
        match op.clone() {
            AOp::Prepare(e) => {
                let e = e as usize;
                if sh.clones[e] == 0 && !sh.pending.contains(&e) {
                    let s = app.world().resource::<AutoDespawner>().prepare(ents[e]);
                    signals[e].push(s);
                    sh.clones[e] = 1;
                    dropped_some[e] = false;
                    tag = 1 + sh.alive[e] as u64;
                }
            }
            AOp::Clone(e) => {
                let e = e as usize;
                if let Some(s) = signals[e].last() {
                    let c = s.clone();
                    signals[e].push(c);
                    sh.clones[e] += 1;
                    tag = 3;
                }
            }
            AOp::Drop(e) => {
                let e = e as usize;
                if let Some(s) = signals[e].pop() {
                    drop(s);
                    sh.clones[e] -= 1;
                    dropped_some[e] = true;
                    if sh.clones[e] == 0 {
                        sh.pending.push(e);
                        tag = 5;
                    } else {
                        tag = 4;
                    }
                }
            }
            AOp::Gc | AOp::Update => {
                let r = std::panic::catch_unwind(std::panic::AssertUnwindSafe(|| {
                    if op == &AOp::Gc {
                        garbage_collect_entities(app.world_mut());
                        // idempotent
                        garbage_collect_entities(app.world_mut());
                    } else {
                        app.update();
                    }
                }));
                if r.is_err() {
                    violations.push(("C10/gc-panicked".to_string(), format!("op {i} {:?} panicked", op)));
                    std::mem::forget(app);
                    std::mem::forget(signals);
                    return SeqOutcome { violations, gcs, gc_between_drops: gc_between, shape, applied, chain_gcs };
                }
                gcs += 1;
                if (0..NENT).any(|e| sh.clones[e] > 0 && dropped_some[e]) {
                    gc_between += 1;
                }
                // Entities released *during* a collection (their last clone was owned by an entity that collection
                // despawned) are only guaranteed to go with the next collection: run one more per level of the chain.
                let mut rounds = 0;
                loop {
                    let pend = std::mem::take(&mut sh.pending);
                    if pend.is_empty() {
                        break;
                    }
                    for e in pend {
                        sh.kill_subtree(e);
                    }
                    rounds += 1;
                    if !sh.pending.is_empty() {
                        chain_gcs += 1;
                        if std::panic::catch_unwind(std::panic::AssertUnwindSafe(|| garbage_collect_entities(app.world_mut()))).is_err() {
                            violations.push(("C10/gc-panicked".to_string(), format!("op {i} {:?}: follow-up collection panicked", op)));
                            std::mem::forget(app);
                            std::mem::forget(signals);
                            return SeqOutcome { violations, gcs, gc_between_drops: gc_between, shape, applied, chain_gcs };
                        }
                    }
                    if rounds > NENT + 1 {
                        break;
                    }
                }
                tag = 6 + (op == &AOp::Update) as u64;
            }
            AOp::ManualDespawn(e) => {
                let e = e as usize;
                if let Ok(em) = app.world_mut().get_entity_mut(ents[e]) {
                    em.despawn_recursive();
                    tag = 8;
                }
                sh.kill_subtree(e);
            }
            AOp::Reparent(c, p) => {
                let (c, p) = (c as usize, p as usize);
                if c != p && sh.alive[c] && sh.alive[p] && !sh.is_descendant(p, c) {
                    app.world_mut().entity_mut(ents[c]).set_parent(ents[p]);
                    sh.parent[c] = Some(p);
                    tag = 9;
                }
            }
            AOp::Attach(a, b) => {
                let (a, b) = (a as usize, b as usize);
                if sh.alive[a] && !signals[b].is_empty() {
                    let s = signals[b].pop().unwrap();
                    let mut em = app.world_mut().entity_mut(ents[a]);
                    if !em.contains::<Holder>() {
                        em.insert(Holder::default());
                    }
                    em.get_mut::<Holder>().unwrap().0.push(s);
                    sh.held[a].push(b);
                    tag = 11;
                }
            }
            AOp::Respawn(e) => {
                let e = e as usize;
                if !sh.alive[e] && sh.clones[e] == 0 && !sh.pending.contains(&e) {
                    ents[e] = app.world_mut().spawn_empty().id();
                    sh.alive[e] = true;
                    sh.parent[e] = None;
                    tag = 10;
                }
            }
        }
        if tag != 0 {
            applied.push(format!("{:?}", op));
            shape ^= tag + 16 * (i as u64 % 3);
            shape = shape.wrapping_mul(0x100000001b3);
        }
        // liveness must agree with the reference count model after every operation
        for e in 0..NENT {
            let real = app.world().get_entity(ents[e]).is_ok();
            if real != sh.alive[e] {
                let what = if real { "alive-with-no-clone-after-gc" } else if sh.clones[e] > 0 { "despawned-while-clone-exists" } else { "despawned-unexpectedly" };
                violations.push((
                    format!("C10/{what}"),
                    format!("after op {i} {:?}: entity slot {e} is {} but the model says {} (clones {})", op, if real { "alive" } else { "gone" }, if sh.alive[e] { "alive" } else { "gone" }, sh.clones[e]),
                ));
                return SeqOutcome { violations, gcs, gc_between_drops: gc_between, shape, applied, chain_gcs };
            }
        }
    }
    // release everything: after a final collection every prepared entity is gone
    for e in 0..NENT {
        if !signals[e].is_empty() {
            sh.clones[e] -= signals[e].len();
            signals[e].clear();
            if sh.clones[e] == 0 {
                sh.pending.push(e);
            }
        }
    }
    if std::panic::catch_unwind(std::panic::AssertUnwindSafe(|| garbage_collect_entities(app.world_mut()))).is_err() {
        violations.push(("C10/gc-panicked".to_string(), "the final collection panicked".to_string()));
        std::mem::forget(app);
        return SeqOutcome { violations, gcs, gc_between_drops: gc_between, shape, applied, chain_gcs };
    }
    for _ in 0..NENT + 1 {
        let pend = std::mem::take(&mut sh.pending);
        if pend.is_empty() {
            break;
        }
        for e in pend {
            sh.kill_subtree(e);
        }
        if !sh.pending.is_empty() {
            garbage_collect_entities(app.world_mut());
        }
    }
    for e in 0..NENT {
        let real = app.world().get_entity(ents[e]).is_ok();
        if real != sh.alive[e] {
            violations.push(("C10/final-state".to_string(), format!("entity slot {e}: real alive={real}, model alive={}", sh.alive[e])));
        }
    }
    SeqOutcome { violations, gcs, gc_between_drops: gc_between, shape, applied, chain_gcs }
}

//-------------------------------------------------------------------------------------------------------------------
// Threaded stress

pub struct ThreadOutcome {
    pub violations: Vec<(String, String)>,
    pub gcs: u64,
    pub gcs_between_first_and_last_drop: u64,
    pub orderings: BTreeSet<u64>,
    pub drops: u64,
    pub clones: u64,
}

/// One trial: `threads` workers share the clones of `NENT` entities and drop / clone them with seeded spins while
/// the main thread collects.
pub fn run_threaded(seed: u64, threads: usize, clones_per_entity: usize, use_update: bool) -> ThreadOutcome {
    let mut app = build_app(seed as usize);
    let ents: Vec<Entity> = (0..NENT).map(|_| app.world_mut().spawn_empty().id()).collect();
    // hierarchy: entity 1 is a child of 0 (dies with it), the rest are roots
    app.world_mut().entity_mut(ents[1]).set_parent(ents[0]);
    let pre: Arc<Vec<AtomicI64>> = Arc::new((0..NENT).map(|_| AtomicI64::new(0)).collect());
    let post: Arc<Vec<AtomicI64>> = Arc::new((0..NENT).map(|_| AtomicI64::new(0)).collect());
    let mut per_thread: Vec<Vec<(usize, AutoDespawnSignal)>> = (0..threads).map(|_| vec![]).collect();
    let mut r = Rng::new(seed);
    for e in 0..NENT {
        let s = app.world().resource::<AutoDespawner>().prepare(ents[e]);
        pre[e].store(clones_per_entity as i64, Ordering::SeqCst);
        post[e].store(clones_per_entity as i64, Ordering::SeqCst);
        for _ in 1..clones_per_entity {
            per_thread[r.below(threads)].push((e, s.clone()));
        }
        per_thread[r.below(threads)].push((e, s));
    }
    let done = Arc::new(AtomicBool::new(false));
    let drops = Arc::new(AtomicI64::new(0));
    let clones = Arc::new(AtomicI64::new(0));
    let mut handles = vec![];
    for (t, mut mine) in per_thread.into_iter().enumerate() {
        let pre = pre.clone();
        let post = post.clone();
        let drops = drops.clone();
        let clones = clones.clone();
        let mut r = Rng::new(seed.wrapping_mul(31).wrapping_add(t as u64));
        handles.push(std::thread::spawn(move || {
            let mut budget = 4 * mine.len() + 8;
            while !mine.is_empty() {
                // seeded delay between critical sections
                match r.below(4) {
                    0 => std::thread::yield_now(),
                    1 => {
                        for _ in 0..r.below(200) {
                            std::hint::spin_loop();
                        }
                    }
                    _ => {}
                }
                if budget > 0 && r.chance(30) {
                    budget -= 1;
                    let i = r.below(mine.len());
                    let e = mine[i].0;
                    post[e].fetch_add(1, Ordering::SeqCst);
                    let c = mine[i].1.clone();
                    pre[e].fetch_add(1, Ordering::SeqCst);
                    mine.push((e, c));
                    clones.fetch_add(1, Ordering::Relaxed);
                } else {
                    let i = r.below(mine.len());
                    let (e, s) = mine.swap_remove(i);
                    pre[e].fetch_sub(1, Ordering::SeqCst);
                    drop(s);
                    post[e].fetch_sub(1, Ordering::SeqCst);
                    drops.fetch_add(1, Ordering::Relaxed);
                }
            }
        }));
    }
    let mut violations = vec![];
    let mut gcs = 0u64;
    let mut between = 0u64;
    let mut orderings = BTreeSet::new();
    let mut history: Vec<u64> = vec![0xcbf29ce484222325; NENT];
    let t0 = Instant::now();
    let initial = clones_per_entity as i64;
    loop {
        let finished = handles.iter().all(|h| h.is_finished());
        let post_before: Vec<i64> = (0..NENT).map(|e| post[e].load(Ordering::SeqCst)).collect();
        let r = std::panic::catch_unwind(std::panic::AssertUnwindSafe(|| {
            if use_update && gcs % 3 == 2 {
                app.update();
            } else {
                garbage_collect_entities(app.world_mut());
            }
        }));
        gcs += 1;
        if r.is_err() {
            violations.push(("C10/gc-panicked".to_string(), format!("collection #{gcs} panicked")));
            for h in handles {
                let _ = h.join();
            }
            std::mem::forget(app);
            return ThreadOutcome { violations, gcs, gcs_between_first_and_last_drop: between, orderings, drops: 0, clones: 0 };
        }
        for e in 0..NENT {
            let alive = app.world().get_entity(ents[e]).is_ok();
            let parent_dead = e == 1 && app.world().get_entity(ents[0]).is_err();
            if post_before[e] == 0 && alive {
                violations.push((
                    "C10/alive-after-gc-with-all-clones-dropped".to_string(),
                    format!("entity slot {e}: every clone had been dropped before the collection #{gcs}, yet the entity survived it"),
                ));
            }
            if !alive && !parent_dead {
                let p = pre[e].load(Ordering::SeqCst);
                if p > 0 {
                    violations.push((
                        "C10/despawned-while-clone-exists".to_string(),
                        format!("entity slot {e} was despawned by collection #{gcs} while at least {p} clones existed"),
                    ));
                }
            }
            if post_before[e] > 0 && post_before[e] < initial {
                between += 1;
            }
            let bucket = if post_before[e] == 0 { 0 } else if post_before[e] < initial { 1 } else { 2 };
            history[e] = (history[e] ^ (bucket + 3 * alive as u64)).wrapping_mul(0x100000001b3);
        }
        if finished || !violations.is_empty() || t0.elapsed() > Duration::from_secs(20) {
            break;
        }
    }
    done.store(true, Ordering::SeqCst);
    for h in handles {
        let _ = h.join();
    }
    if std::panic::catch_unwind(std::panic::AssertUnwindSafe(|| garbage_collect_entities(app.world_mut()))).is_err() {
        violations.push(("C10/gc-panicked".to_string(), "the final collection panicked".to_string()));
        std::mem::forget(app);
        return ThreadOutcome { violations, gcs, gcs_between_first_and_last_drop: between, orderings, drops: 0, clones: 0 };
    }
    for e in 0..NENT {
        if app.world().get_entity(ents[e]).is_ok() {
            violations.push(("C10/alive-after-final-gc".to_string(), format!("entity slot {e} survived the collection that followed the drop of all its clones")));
        }
        orderings.insert(history[e]);
    }
    ThreadOutcome {
        violations,
        gcs,
        gcs_between_first_and_last_drop: between,
        orderings,
        drops: drops.load(Ordering::Relaxed) as u64,
        clones: clones.load(Ordering::Relaxed) as u64,
    }
}

//-------------------------------------------------------------------------------------------------------------------
// Rendezvous stress: the *last* clones of an entity are dropped by different threads at (as nearly as possible) the same
// instant. Random delays almost never line the final drops up; the decision "am I the last one?" is exactly where a
// reference count can go wrong, so this stage aims every drop at that moment.

pub struct RendezvousOutcome {
    pub violations: Vec<(String, String)>,
    /// entities whose last k clones were dropped together
    pub entities: u64,
    /// entities for which the k drop calls overlapped in time (each started before any other had returned)
    pub overlapped: u64,
}

pub fn run_rendezvous(seed: u64, k: usize, n_ent: usize, with_children: bool) -> RendezvousOutcome {
    use std::sync::atomic::AtomicUsize;
    let mut app = App::new();
    app.setup_auto_despawn();
    let ents: Vec<Entity> = (0..n_ent).map(|_| app.world_mut().spawn_empty().id()).collect();
    let kids: Vec<Option<Entity>> = ents
        .iter()
        .enumerate()
        .map(|(i, e)| {
            if with_children && i % 3 == 0 {
                let c = app.world_mut().spawn_empty().id();
                app.world_mut().entity_mut(c).set_parent(*e);
                Some(c)
            } else {
                None
            }
        })
        .collect();
    // thread t holds one clone of every entity
    let mut per_thread: Vec<Vec<AutoDespawnSignal>> = (0..k).map(|_| Vec::with_capacity(n_ent)).collect();
    for e in ents.iter() {
        let s = app.world().resource::<AutoDespawner>().prepare(*e);
        for t in 1..k {
            per_thread[t].push(s.clone());
        }
        per_thread[0].push(s);
    }
    let arrived: Arc<Vec<AtomicUsize>> = Arc::new((0..n_ent).map(|_| AtomicUsize::new(0)).collect());
    let started: Arc<Vec<AtomicUsize>> = Arc::new((0..n_ent).map(|_| AtomicUsize::new(0)).collect());
    let overlapped: Arc<Vec<AtomicBool>> = Arc::new((0..n_ent).map(|_| AtomicBool::new(true)).collect());
    let mut handles = vec![];
    for (t, mine) in per_thread.into_iter().enumerate() {
        let arrived = arrived.clone();
        let started = started.clone();
        let overlapped = overlapped.clone();
        let mut r = Rng::new(seed.wrapping_mul(131).wrapping_add(t as u64));
        handles.push(std::thread::spawn(move || {
            for (i, s) in mine.into_iter().enumerate() {
                // rendezvous: wait until every holder of entity i is here
                arrived[i].fetch_add(1, Ordering::SeqCst);
                let mut spins = 0u64;
                while arrived[i].load(Ordering::SeqCst) < k {
                    std::hint::spin_loop();
                    spins += 1;
                    if spins % 4096 == 0 {
                        std::thread::yield_now();
                    }
                }
                // tiny seeded skew so that the relative order of the drops varies
                for _ in 0..r.below(4) {
                    std::hint::spin_loop();
                }
                started[i].fetch_add(1, Ordering::SeqCst);
                drop(s);
                // if some other holder had not even started when this drop returned, the calls did not overlap
                if started[i].load(Ordering::SeqCst) < k {
                    overlapped[i].store(false, Ordering::Relaxed);
                }
            }
        }));
    }
    let mut violations = vec![];
    // the main thread collects while the workers run (a collection may fall between two of the final drops)
    let mut panicked = false;
    while !handles.iter().all(|h| h.is_finished()) {
        if std::panic::catch_unwind(std::panic::AssertUnwindSafe(|| garbage_collect_entities(app.world_mut()))).is_err() {
            panicked = true;
            break;
        }
        // an entity must not disappear before all of its holders have at least started to drop
        for (i, e) in ents.iter().enumerate() {
            if started[i].load(Ordering::SeqCst) == 0 && arrived[i].load(Ordering::SeqCst) < k && app.world().get_entity(*e).is_err() {
                violations.push(("C10/despawned-while-clone-exists".to_string(), format!("rendezvous: entity {i} despawned before any of its {k} holders started to drop")));
            }
        }
        if !violations.is_empty() {
            break;
        }
    }
    for h in handles {
        let _ = h.join();
    }
    if panicked || std::panic::catch_unwind(std::panic::AssertUnwindSafe(|| garbage_collect_entities(app.world_mut()))).is_err() {
        violations.push(("C10/gc-panicked".to_string(), "rendezvous: a collection panicked".to_string()));
        std::mem::forget(app);
        return RendezvousOutcome { violations, entities: 0, overlapped: 0 };
    }
    let mut leaked = vec![];
    for (i, e) in ents.iter().enumerate() {
        if app.world().get_entity(*e).is_ok() {
            leaked.push(i);
        } else if let Some(c) = kids[i] {
            if app.world().get_entity(c).is_ok() {
                violations.push(("C10/descendant-survived".to_string(), format!("rendezvous: the child of entity {i} survived its parent's auto-despawn")));
            }
        }
    }
    if !leaked.is_empty() {
        violations.push((
            "C10/alive-after-final-gc".to_string(),
            format!("rendezvous: {} of {n_ent} entities survived the collection that followed the simultaneous drop of their last {k} clones on {k} threads (first: {})", leaked.len(), leaked[0]),
        ));
    }
    let ov = overlapped.iter().filter(|b| b.load(Ordering::Relaxed)).count() as u64;
    RendezvousOutcome { violations, entities: n_ent as u64, overlapped: ov }
}

//-------------------------------------------------------------------------------------------------------------------

/// Burst stage (single-threaded): `n` entities (some with a child, some with several clones) lose all their clones, then
/// exactly ONE collection runs (a direct `garbage_collect_entities` or one `App::update`): none may be gone before it,
/// every one must be gone after it, however many there are (seed C10i: a collector that takes a bounded batch per call).
pub fn run_burst(seed: u64, n: usize, via_update: bool) -> (Vec<(String, String)>, u64) {
    let mut r = Rng::new(seed);
    let mut violations = vec![];
    let mut app = build_app(seed as usize);
    let ents: Vec<Entity> = (0..n).map(|_| app.world_mut().spawn_empty().id()).collect();
    let mut kids = vec![];
    let mut signals: Vec<AutoDespawnSignal> = vec![];
    for (i, e) in ents.iter().enumerate() {
        if i % 5 == 0 {
            let c = app.world_mut().spawn_empty().id();
            app.world_mut().entity_mut(c).set_parent(*e);
            kids.push(c);
        }
        let s = app.world().resource::<AutoDespawner>().prepare(*e);
        for _ in 0..r.range(0, 2) {
            signals.push(s.clone());
        }
        signals.push(s);
    }
    // drop in a seeded order
    while !signals.is_empty() {
        let k = r.range(0, signals.len() - 1);
        drop(signals.swap_remove(k));
    }
    if let Some(i) = ents.iter().position(|e| app.world().get_entity(*e).is_err()) {
        violations.push(("C10/despawned-outside-a-collection".to_string(), format!("burst of {n}: entity {i} was gone before any collection ran")));
    }
    let ok = std::panic::catch_unwind(std::panic::AssertUnwindSafe(|| {
        if via_update {
            app.update();
        } else {
            garbage_collect_entities(app.world_mut());
        }
    }))
    .is_ok();
    if !ok {
        violations.push(("C10/gc-panicked".to_string(), format!("burst of {n}: the collection panicked")));
        std::mem::forget(app);
        return (violations, 0);
    }
    let left = ents.iter().filter(|e| app.world().get_entity(**e).is_ok()).count();
    if left > 0 {
        violations.push((
            "C10/alive-after-first-gc-after-last-drop".to_string(),
            format!("burst: {left} of {n} entities whose clones had all been dropped survived the first collection ({})", if via_update { "App::update" } else { "garbage_collect_entities" }),
        ));
    }
    let kids_left = kids.iter().filter(|c| app.world().get_entity(**c).is_ok()).count();
    if kids_left > 0 && left == 0 {
        violations.push(("C10/descendant-survived".to_string(), format!("burst of {n}: {kids_left} children survived their parents' auto-despawn")));
    }
    (violations, n as u64)
}

pub struct C10Config {
    pub tier: String,
    pub seed: u64,
    pub out: String,
    pub replay_dir: String,
    pub sequences: usize,
    pub trials: usize,
    /// Extra evidence produced by sanitizer stages (filled in by the driver script).
    pub stage_notes: Option<String>,
    /// Small threaded trials (for interpreters).
    pub small: bool,
}

#[derive(Serialize, Deserialize)]
pub struct C10Replay {
    pub property: String,
    pub signature: String,
    pub message: String,
    pub ops: Vec<AOp>,
}

pub fn run_check(cfg: &C10Config) -> (usize, Option<String>) {
    let t0 = Instant::now();
    let mut sigs: BTreeMap<String, (usize, Vec<AOp>, String)> = BTreeMap::new();
    let mut shapes = BTreeSet::new();
    let mut gcs = 0u64;
    let mut gc_between = 0u64;
    let mut gc_chain = 0u64;
    let mut samples = vec![];
    for k in 0..cfg.sequences {
        let ops = gen_seq(cfg.seed.wrapping_mul(104729).wrapping_add(k as u64));
        let o = run_seq(&ops);
        gcs += o.gcs as u64;
        gc_between += o.gc_between_drops as u64;
        gc_chain += o.chain_gcs as u64;
        if o.gc_between_drops > 0 {
            shapes.insert(o.shape);
            if samples.len() < 2 {
                samples.push(json!({"single_threaded_ops_applied": o.applied}));
            }
        }
        for (s, m) in o.violations {
            sigs.entry(s).or_insert((0, ops.clone(), m)).0 += 1;
        }
    }
    // threaded trials
    let mut orderings = BTreeSet::new();
    let mut t_gcs = 0u64;
    let mut t_between = 0u64;
    let mut t_drops = 0u64;
    let mut t_clones = 0u64;
    let mut thread_counts = BTreeSet::new();
    for k in 0..cfg.trials {
        let mut r = Rng::new(cfg.seed.wrapping_mul(6151).wrapping_add(k as u64));
        let threads = if cfg.small { r.range(2, 3) } else { r.range(2, 15) };
        let clones = if cfg.small { r.range(1, 3) } else { r.range(1, 50) };
        thread_counts.insert(threads);
        let o = run_threaded(cfg.seed.wrapping_mul(977).wrapping_add(k as u64), threads, clones, k % 4 == 0);
        t_gcs += o.gcs;
        t_between += o.gcs_between_first_and_last_drop;
        t_drops += o.drops;
        t_clones += o.clones;
        for h in o.orderings {
            orderings.insert(h ^ (threads as u64) << 56);
        }
        for (s, m) in o.violations {
            sigs.entry(s).or_insert((0, vec![], format!("threaded trial seed={} threads={threads} clones={clones}: {m}", cfg.seed.wrapping_mul(977).wrapping_add(k as u64)))).0 += 1;
        }
    }
    // rendezvous rounds
    let rounds = if cfg.trials == 0 { 0 } else if cfg.small { 2 } else { (cfg.trials / 2).max(20) };
    let mut rv_entities = 0u64;
    let mut rv_overlapped = 0u64;
    for k in 0..rounds {
        let mut r = Rng::new(cfg.seed.wrapping_mul(4447).wrapping_add(k as u64));
        let holders = if cfg.small { 2 } else { r.range(2, 4) };
        let n_ent = if cfg.small { 3 } else { 64 };
        let o = run_rendezvous(cfg.seed.wrapping_mul(389).wrapping_add(k as u64), holders, n_ent, k % 2 == 0);
        rv_entities += o.entities;
        rv_overlapped += o.overlapped;
        for (s, m) in o.violations {
            sigs.entry(s).or_insert((0, vec![], format!("rendezvous round {k} holders={holders}: {m}"))).0 += 1;
        }
    }
    samples.push(json!({"rendezvous_rounds": rounds, "entities_whose_last_clones_were_dropped_together": rv_entities, "of_which_the_drop_calls_overlapped_in_time": rv_overlapped}));
    // burst rounds
    let bursts = if cfg.trials == 0 { 0 } else if cfg.small { 2 } else { (cfg.trials / 3).max(40) };
    let mut burst_entities = 0u64;
    let mut burst_max = 0usize;
    for k in 0..bursts {
        let mut r = Rng::new(cfg.seed.wrapping_mul(7919).wrapping_add(k as u64));
        let n = if cfg.small { r.range(3, 8) } else if k % 4 == 0 { r.range(1, 70) } else { r.range(60, 700) };
        burst_max = burst_max.max(n);
        let bseed = cfg.seed.wrapping_mul(613).wrapping_add(k as u64);
        let (vs, ne) = run_burst(bseed, n, k % 3 == 0);
        burst_entities += ne;
        for (s, m) in vs {
            // (the parameters in the message make the round replayable, see `replay`)
            sigs.entry(s).or_insert((0, vec![], format!("burst seed={bseed} n={n} update={}: {m}", k % 3 == 0))).0 += 1;
        }
    }
    samples.push(json!({"burst_rounds": bursts, "entities_collected_by_a_single_collection_after_all_clones_dropped": burst_entities, "largest_burst": burst_max}));
    samples.push(json!({"threaded_trials": cfg.trials, "thread_counts_used": thread_counts, "collections": t_gcs, "collections_while_some_but_not_all_clones_dropped": t_between, "drops": t_drops, "clones": t_clones}));
    let _ = std::fs::create_dir_all(&cfg.replay_dir);
    let mut total = 0;
    let mut records = vec![];
    for (n, (sig, (count, ops, msg))) in sigs.iter().enumerate() {
        total += count;
        let path = format!("{}/C10-{}-{}.json", cfg.replay_dir, cfg.seed, n);
        let _ = std::fs::write(&path, serde_json::to_string_pretty(&C10Replay { property: "C10".into(), signature: sig.clone(), message: msg.clone(), ops: ops.clone() }).unwrap());
        println!("VIOLATION property=C10 replay={}", path);
        println!("  signature={} count={}: {}", sig, count, msg);
        records.push(json!({"signature": sig, "count": count, "message": msg, "replay": path}));
    }
    let distinct = shapes.len() + orderings.len();
    let inconclusive = if cfg.small { None } else if shapes.len() < 20 || (cfg.trials > 0 && t_between == 0) || (rounds > 0 && rv_overlapped < 50) {
        Some(format!("coverage floor not met: {} single-threaded shapes, {} collections between first and last drop in threaded trials, {} entities with overlapping final drops", shapes.len(), t_between, rv_overlapped))
    } else {
        None
    };
    let ev = json!({
        "property_id": "C10",
        "tier": cfg.tier,
        "seed": cfg.seed,
        "level": "exploration",
        "coverage": {
            "evaluations": cfg.sequences + cfg.trials,
            "distinct_nontrivial": distinct,
            "rule": "apps are assembled in six orders (setup_auto_despawn alone; ReactPlugin; add_reactor or add_world_reactor_with before the plugin; after it; add_reactor alone) and must all collect in `Last`. single-threaded: seeded sequences of prepare/clone/drop/gc/App::update/manual-despawn/reparent/respawn/attach (a clone moved into a component of another entity, so that it is dropped when that entity is despawned, possibly in the middle of a collection) over 6 entities checked after every op against an exact reference-count + hierarchy model; non-trivial = a collection ran while some but not all clones of an entity had been dropped; distinct = distinct applied-op shapes. threaded: 2-15 workers drop/clone 1-50 signals per entity with seeded spins/yields while the main thread collects; judged with two atomic counters (pre <= real count <= post); distinct = distinct per-entity histories of (clone-count bucket, liveness) across collections per thread count. rendezvous: per round 64 entities whose last 2-4 clones are held by 2-4 threads that meet at a spin barrier per entity and drop together while the main thread collects; every entity (and child) must be gone after the final collection; the number of entities whose drop calls really overlapped is measured. burst: 1-700 entities (some with a child, 1-3 clones each) lose every clone in a seeded order, then exactly one collection (direct call or one App::update) runs: none gone before it, all gone after it",
            "samples": samples,
            "single_threaded_sequences": cfg.sequences,
            "single_threaded_collections": gcs,
            "single_threaded_collections_between_drops": gc_between,
            "single_threaded_distinct_shapes": shapes.len(),
            "single_threaded_collections_during_which_a_despawned_owner_released_another_entity": gc_chain,
            "threaded_trials": cfg.trials,
            "threaded_collections": t_gcs,
            "threaded_collections_between_first_and_last_drop": t_between,
            "threaded_distinct_orderings": orderings.len(),
            "rendezvous_rounds": rounds,
            "rendezvous_entities": rv_entities,
            "rendezvous_entities_with_overlapping_final_drops": rv_overlapped,
            "burst_rounds": bursts,
            "burst_entities": burst_entities,
            "largest_burst": burst_max,
            "sanitizer_stages": cfg.stage_notes,
        },
        "assumptions": ["monitor counters are updated with SeqCst atomics on the safe side of every real clone/drop, so the monitor cannot itself be the race", "crossbeam channel and Arc are trusted (covered by the TSan/Miri stages in the thorough tier)"],
        "wall_s": t0.elapsed().as_secs_f64(),
        "violations": total,
        "violation_signatures": records,
        "inconclusive": inconclusive,
    });
    if let Some(dir) = std::path::Path::new(&cfg.out).parent() {
        let _ = std::fs::create_dir_all(dir);
    }
    let _ = std::fs::write(&cfg.out, serde_json::to_string_pretty(&ev).unwrap());
    println!(
        "C10 {}: {} single-threaded sequences ({} collections, {} between drops, {} shapes), {} threaded trials ({} collections, {} between first and last drop, {} orderings), {} rendezvous rounds ({} entities, {} with overlapping final drops), {:.1}s; violations: {}",
        cfg.tier,
        cfg.sequences,
        gcs,
        gc_between,
        shapes.len(),
        cfg.trials,
        t_gcs,
        t_between,
        orderings.len(),
        rounds,
        rv_entities,
        rv_overlapped,
        t0.elapsed().as_secs_f64(),
        total
    );
    if let Some(m) = &inconclusive {
        println!("INCONCLUSIVE: {m}");
    }
    (total, inconclusive)
}

pub fn replay(path: &str) -> bool {
    let s = std::fs::read_to_string(path).expect("cannot read replay file");
    let rf: C10Replay = serde_json::from_str(&s).expect("malformed replay file");
    // a burst round is deterministic in its three parameters, which the message carries
    if rf.ops.is_empty() && rf.message.starts_with("burst seed=") {
        let field = |name: &str| rf.message.split(|c: char| c == ' ' || c == ':').find_map(|w| w.strip_prefix(name).map(|v| v.to_string()));
        let (Some(sd), Some(n), Some(u)) = (field("seed="), field("n="), field("update=")) else { return false };
        let (vs, _) = run_burst(sd.parse().unwrap_or(0), n.parse().unwrap_or(1), u == "true");
        for v in vs.iter() {
            println!("{}: {}", v.0, v.1);
        }
        return vs.iter().any(|v| v.0 == rf.signature);
    }
    let o = run_seq(&rf.ops);
    for a in o.applied.iter() {
        println!("{a}");
    }
    for v in o.violations.iter() {
        println!("{}: {}", v.0, v.1);
    }
    o.violations.iter().any(|v| v.0 == rf.signature)
}
