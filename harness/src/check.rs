//! The check engine for the tree-mode properties: generates programs, executes them in parallel, evaluates the
//! property's monitor, shrinks witnesses, matches known findings, writes evidence and replay files.

use serde::{Deserialize, Serialize};
use serde_json::json;
use std::collections::{BTreeMap, BTreeSet};
use std::panic::{catch_unwind, AssertUnwindSafe};
use std::sync::atomic::{AtomicBool, AtomicUsize, Ordering};
use std::sync::{Arc, Mutex};
use std::time::{Duration, Instant};

use crate::analysis::analyze;
use crate::dispatch::deliveries;
use crate::exec::execute;
use crate::monitors::{run_monitor, Cover, Ctx, Violation, ALL_PROPS};
use crate::profiles::{directed_for, profile_for};
use crate::program::*;
use crate::trace::{Ev, RAct};
use crate::types::{lk, N_SHAPES};

#[derive(Clone, Debug, Serialize, Deserialize)]
pub struct KnownFinding {
    pub id: String,
    pub property: String,
    /// Signature prefix that identifies the finding.
    pub signature: String,
    /// "open" or "fixed"
    pub status: String,
    pub description: String,
    #[serde(default)]
    pub commit: Option<String>,
}

pub fn load_known(path: &str) -> Vec<KnownFinding> {
    let Ok(s) = std::fs::read_to_string(path) else { return vec![] };
    #[derive(Deserialize)]
    struct File {
        findings: Vec<KnownFinding>,
    }
    serde_json::from_str::<File>(&s).map(|f| f.findings).unwrap_or_default()
}

pub struct Config {
    pub prop: String,
    pub tier: String,
    pub seed: u64,
    pub out: String,
    pub replay_dir: String,
    pub known: String,
    pub threads: usize,
    pub random_programs: usize,
    pub wall_cap: Duration,
    pub cross_every: usize,
    /// Use only an evenly spaced subset of the directed family (sanitizer stages).
    pub directed_limit: Option<usize>,
    /// Sanitizer shards run few programs: do not apply the coverage floor.
    pub no_floor: bool,
    /// Interpreter stages (Miri costs about a second per system run): small random programs with little fuel.
    pub small: bool,
}

pub struct Outcome {
    pub violations: usize,
    pub new_violations: usize,
    pub inconclusive: Option<String>,
}

fn fnv(s: &str, mut h: u64) -> u64 {
    for b in s.as_bytes() {
        h ^= *b as u64;
        h = h.wrapping_mul(0x100000001b3);
    }
    h
}

/// Hash of the normalised trace shape: what kinds of things happened in which order, ids renamed away.
pub fn shape_hash(tr: &[Ev]) -> u64 {
    let mut h = 0xcbf29ce484222325u64;
    for e in tr {
        match e {
            Ev::RunStart { inst, obs, .. } => {
                h = fnv("R", h);
                h = fnv(&format!("{}:{:?}", inst, obs.seen().iter().map(std::mem::discriminant).collect::<Vec<_>>()), h);
            }
            Ev::Issued { act, .. } => {
                let s = format!("{:?}", act);
                let kind = s.split(|c: char| !c.is_alphanumeric()).next().unwrap_or("");
                h = fnv(kind, h);
            }
            Ev::Hook(hk) => {
                let s = format!("{:?}", hk);
                let kind = s.split(|c: char| !c.is_alphanumeric()).next().unwrap_or("");
                h = fnv(kind, h);
            }
            Ev::PayloadDrop { .. } => h = fnv("D", h),
            Ev::CanaryDrop { .. } => h = fnv("C", h),
            Ev::OpStart { .. } => h = fnv("O", h),
            _ => {}
        }
    }
    h
}

pub struct Evaluated {
    pub violations: Vec<Violation>,
    pub cover: Cover,
    pub shape: u64,
    pub events: usize,
    pub runs: usize,
    pub cross: Vec<Violation>,
}

/// Executes one program and evaluates `prop` (plus, optionally, every other monitor for diagnostics).
pub fn evaluate(prog: &Arc<Program>, prop: &str, cross: bool) -> Evaluated {
    let t0 = Instant::now();
    let ex = execute(prog);
    let t1 = Instant::now();
    let a = analyze(prog, &ex.trace);
    let t2 = Instant::now();
    let cx = Ctx { a: &a, dels: deliveries(&a) };
    let t3 = Instant::now();
    let (mut violations, mut cover) = run_monitor(prop, &cx);
    if std::env::var("VERIF_SLOW_MS").is_ok() && t0.elapsed().as_millis() > 2000 {
        eprintln!("  {}: execute {:?}, analyze {:?}, deliveries {:?}, monitor {:?}; {} events, {} runs, {} cmds", prog.name, t1 - t0, t2 - t1, t3 - t2, t3.elapsed(), ex.trace.len(), a.runs.len(), a.cmds.len());
    }
    // which forms of the public API this execution went through (independent of the property under check)
    for c in a.cmds.iter() {
        match &c.act {
            RAct::Register { once, form, mode, flavour, .. } => {
                let shape = form % N_SHAPES;
                let api = form / N_SHAPES;
                if *flavour == Flavour::Zst {
                    cover.count("api/registrations_of_the_same_zero_sized_fn_item", 1);
                }
                cover.count(if shape == 0 { "api/register_bundle_dyn" } else { "api/register_bundle_real_tuples" }, 1);
                if *once {
                    cover.count("api/register_once", 1);
                } else if api == 2 {
                    cover.count("api/register_app_add_reactor", 1);
                } else if api % 2 == 0 {
                    cover.count("api/register_spawn_plus_with", 1);
                } else {
                    cover.count(
                        match mode {
                            Mode::Cleanup => "api/register_on",
                            Mode::Persistent => "api/register_on_persistent",
                            Mode::Revokable => "api/register_on_revokable",
                        },
                        1,
                    );
                }
            }
            RAct::WrAdd { wr: 1, .. } if c.run == 0 => cover.count("api/world_reactor_starting_triggers", 1),
            RAct::AutoDespawnEnt { .. } => cover.count("api/entity_released_for_auto_despawn", 1),
            RAct::RunEnt { .. } => cover.count("api/run_command_to_plain_entity", 1),
            RAct::SendSeEnt { .. } => cover.count("api/system_event_to_plain_entity", 1),
            _ => {}
        }
    }
    // A panic inside the workload truncates the execution: whatever the property under check says about the rest of
    // the tree cannot hold (and correct code never panics in these workloads). C18 reports it itself.
    // A stop of the harness itself ("harness assumption [Cxx]") is a violation only for the property the assumption stands
    // for; for every other property the program is a harness error (the run is inconclusive, not an alarm).
    if let Some((op, msg)) = &a.panicked {
        if let Some(k) = msg.find("harness assumption [") {
            let tag = &msg[k + 20..(k + 23).min(msg.len())];
            if tag == prop {
                let prop_static: &'static str = ALL_PROPS.iter().copied().find(|p| *p == prop).unwrap_or("C18");
                violations.push(Violation::new(prop_static, format!("{prop}/registration-did-not-get-its-own-system"), format!("op {op}: {msg}"), a.end_pos));
                return Evaluated { violations, cover, shape: shape_hash(&ex.trace), events: ex.trace.len(), runs: a.runs.len(), cross: vec![] };
            }
            panic!("{}", &msg[k..]);
        }
    }
    if let (Some((op, msg)), true) = (&a.panicked, prop != "C18") {
        let short: String = msg.chars().take(60).map(|c| if c.is_ascii_digit() { '#' } else { c }).collect();
        let prop_static: &'static str = ALL_PROPS.iter().copied().find(|p| *p == prop).unwrap_or("C18");
        violations.push(Violation::new(prop_static, format!("{prop}/panic/{short}"), format!("panic in op {op}: {msg}"), a.end_pos));
    }
    let mut cross_v = vec![];
    if cross {
        for p in ALL_PROPS {
            if p != prop {
                cross_v.extend(run_monitor(p, &cx).0);
            }
        }
    }
    Evaluated { violations, cover, shape: shape_hash(&ex.trace), events: ex.trace.len(), runs: a.runs.len(), cross: cross_v }
}

fn has_sig(prog: &Arc<Program>, prop: &str, sig: &str) -> bool {
    let r = catch_unwind(AssertUnwindSafe(|| evaluate(prog, prop, false)));
    match r {
        Ok(e) => e.violations.iter().any(|v| v.sig == sig),
        Err(_) => false,
    }
}

/// Greedy shrinker: delete ops / actions / script runs while the same signature is still reported.
pub fn shrink(prog: &Program, prop: &str, sig: &str, budget: Duration) -> Program {
    let t0 = Instant::now();
    let mut cur = prog.clone();
    let mut progress = true;
    let mut tries = 0;
    while progress && t0.elapsed() < budget && tries < 2000 {
        progress = false;
        // remove whole ops (never op 0's position semantics: allowed too)
        let mut i = cur.ops.len();
        while i > 0 {
            i -= 1;
            if cur.ops.len() <= 1 {
                break;
            }
            let mut c = cur.clone();
            c.ops.remove(i);
            tries += 1;
            if has_sig(&Arc::new(c.clone()), prop, sig) {
                cur = c;
                progress = true;
            }
            if t0.elapsed() > budget {
                return cur;
            }
        }
        // remove single actions of ops
        for oi in 0..cur.ops.len() {
            let mut ai = cur.ops[oi].acts.len();
            while ai > 0 {
                ai -= 1;
                let mut c = cur.clone();
                c.ops[oi].acts.remove(ai);
                tries += 1;
                if has_sig(&Arc::new(c.clone()), prop, sig) {
                    cur = c;
                    progress = true;
                }
                if t0.elapsed() > budget {
                    return cur;
                }
            }
        }
        // remove actions of scripts
        for si in 0..cur.scripts.len() {
            for ri in 0..cur.scripts[si].runs.len() {
                let mut ai = cur.scripts[si].runs[ri].len();
                while ai > 0 {
                    ai -= 1;
                    let mut c = cur.clone();
                    c.scripts[si].runs[ri].remove(ai);
                    tries += 1;
                    if has_sig(&Arc::new(c.clone()), prop, sig) {
                        cur = c;
                        progress = true;
                    }
                    if t0.elapsed() > budget {
                        return cur;
                    }
                }
            }
        }
    }
    cur
}

#[derive(Serialize, Deserialize)]
pub struct ReplayFile {
    pub property: String,
    pub signature: String,
    pub message: String,
    pub seed: u64,
    pub tier: String,
    pub original_program: String,
    pub program: Program,
}

pub fn tier_budget(prop: &str, tier: &str) -> (usize, Duration) {
    let thorough = tier == "thorough";
    let n = match (prop, thorough) {
        (_, false) => 40_000,
        (_, true) => 500_000,
    };
    (n, if thorough { Duration::from_secs(1500) } else { Duration::from_secs(240) })
}

pub fn run_check(cfg: &Config) -> Outcome {
    let t0 = Instant::now();
    let prop: &str = &cfg.prop;
    let thorough = cfg.tier == "thorough";
    let mut profile = profile_for(prop);
    if cfg.small {
        profile.ops = (2, 4);
        profile.acts_per_op = (1, 2);
        profile.scripts = (2, 3);
        profile.runs_per_script = (1, 2);
        profile.acts_per_run = (0, 3);
        profile.init_regs = (2, 3);
        profile.app_reactors = (0, 1);
        profile.fuel = 12;
    }
    let deep_profile = {
        let mut d = profile.clone();
        d.ops = (d.ops.0 + 2, d.ops.1 * 2 + 2);
        d.acts_per_op = (d.acts_per_op.0, d.acts_per_op.1 + 2);
        d.scripts = (d.scripts.0 + 1, d.scripts.1 + 3);
        d.runs_per_script = (d.runs_per_script.0, d.runs_per_script.1 + 2);
        d.init_regs = (d.init_regs.0 + 2, d.init_regs.1 + 4);
        d.fuel = d.fuel * 2;
        d.app_reactors = (0, 3);
        d
    };
    let mut directed = directed_for(prop, thorough);
    if let Some(n) = cfg.directed_limit {
        if n < directed.len() {
            let step = directed.len() as f64 / n.max(1) as f64;
            let off = (cfg.seed as usize) % (step as usize).max(1);
            directed = (0..n).map(|i| directed[((i as f64 * step) as usize + off).min(directed.len() - 1)].clone()).collect();
        }
    }
    let n_directed = directed.len();
    let n_random = cfg.random_programs;
    let total = n_directed + n_random;
    let directed = Arc::new(directed);
    let next = AtomicUsize::new(0);
    let stop = AtomicBool::new(false);

    struct Agg {
        evaluations: usize,
        events: usize,
        runs: usize,
        relevant: usize,
        nontrivial: usize,
        shapes: BTreeSet<u64>,
        counters: BTreeMap<&'static str, u64>,
        // signature -> (count, first witness program, message)
        sigs: BTreeMap<String, (usize, Program, String, usize)>,
        cross: BTreeMap<String, usize>,
        harness_errors: Vec<String>,
        samples: Vec<serde_json::Value>,
    }
    let agg = Mutex::new(Agg {
        evaluations: 0,
        events: 0,
        runs: 0,
        relevant: 0,
        nontrivial: 0,
        shapes: BTreeSet::new(),
        counters: BTreeMap::new(),
        sigs: BTreeMap::new(),
        cross: BTreeMap::new(),
        harness_errors: vec![],
        samples: vec![],
    });

    std::thread::scope(|s| {
        for _ in 0..cfg.threads {
            s.spawn(|| loop {
                if stop.load(Ordering::Relaxed) {
                    break;
                }
                let i = next.fetch_add(1, Ordering::Relaxed);
                if i >= total {
                    break;
                }
                if t0.elapsed() > cfg.wall_cap {
                    stop.store(true, Ordering::Relaxed);
                    break;
                }
                let prog = if i < n_directed {
                    Arc::new(directed[i].clone())
                } else {
                    let k = (i - n_directed) as u64;
                    // thorough tier: every second random program is drawn from the deep variant of the profile
                    // (about twice as many trees, longer bodies, more scripts and initial registrations, more fuel)
                    let pr = if thorough && k % 2 == 1 { &deep_profile } else { &profile };
                    Arc::new(gen_program(cfg.seed.wrapping_mul(1_000_003).wrapping_add(k), pr))
                };
                let cross = cfg.cross_every > 0 && i % cfg.cross_every == 0;
                let t_prog = Instant::now();
                let r = catch_unwind(AssertUnwindSafe(|| evaluate(&prog, prop, cross)));
                if let Ok(ms) = std::env::var("VERIF_SLOW_MS") {
                    let ms: u128 = ms.parse().unwrap_or(1000);
                    if t_prog.elapsed().as_millis() > ms {
                        eprintln!("slow program {}: {} ms", prog.name, t_prog.elapsed().as_millis());
                    }
                }
                let mut g = lk(&agg);
                match r {
                    Err(p) => {
                        let msg = p.downcast_ref::<String>().cloned().or_else(|| p.downcast_ref::<&str>().map(|s| s.to_string())).unwrap_or_default();
                        if g.harness_errors.len() < 5 {
                            g.harness_errors.push(format!("{}: {}", prog.name, msg));
                        }
                    }
                    Ok(e) => {
                        g.evaluations += 1;
                        g.events += e.events;
                        g.runs += e.runs;
                        if e.cover.relevant {
                            g.relevant += 1;
                        }
                        if e.cover.nontrivial {
                            g.nontrivial += 1;
                            g.shapes.insert(e.shape);
                            if g.samples.len() < 3 && (i >= n_directed || g.samples.is_empty()) {
                                let counters: BTreeMap<&str, u64> = e.cover.counters.iter().cloned().collect();
                                g.samples.push(json!({"program": &*prog, "events": e.events, "runs": e.runs, "monitor_counters": counters}));
                            }
                        }
                        for (k, n) in e.cover.counters.iter() {
                            *g.counters.entry(k).or_insert(0) += n;
                        }
                        for v in e.violations.iter() {
                            let ent = g.sigs.entry(v.sig.clone()).or_insert_with(|| (0, (*prog).clone(), v.msg.clone(), i));
                            ent.0 += 1;
                        }
                        for v in e.cross.iter() {
                            *g.cross.entry(v.sig.clone()).or_insert(0) += 1;
                        }
                    }
                }
            });
        }
    });

    let mut g = agg.into_inner().unwrap_or_else(|e| e.into_inner());
    // C11: metamorphic stage (a tree behaves the same whatever neutral trees ran before it)
    let mut meta_json = serde_json::Value::Null;
    if prop == "C11" {
        let pairs = if thorough { 60_000 } else { 4_000 };
        let per = pairs / cfg.threads.max(1);
        let results: Vec<crate::meta::MetaOutcome> = std::thread::scope(|s| {
            let hs: Vec<_> = (0..cfg.threads).map(|t| { let profile = &profile; s.spawn(move || crate::meta::run_pairs(cfg.seed.wrapping_add(1000 * t as u64 + 17), per, profile)) }).collect();
            hs.into_iter().filter_map(|h| h.join().ok()).collect()
        });
        let mut tried = 0;
        let mut compared = 0;
        let mut faults = 0;
        let mut sample = None;
        for r in results {
            tried += r.pairs_tried;
            compared += r.pairs_compared;
            faults += r.prefix_faults;
            if sample.is_none() {
                sample = r.sample;
            }
            for (sig, msg, prog) in r.violations {
                let ent = g.sigs.entry(sig).or_insert_with(|| (0, prog, msg, 0));
                ent.0 += 1;
            }
        }
        meta_json = json!({"pairs_tried": tried, "pairs_with_neutral_prefix_compared": compared, "compared_pairs_whose_prefix_contained_abort_or_postponement": faults, "sample": sample});
    }
    // C14: accessor-table stage (every public accessor form, one call at a time, against the documented table)
    let mut acc_json = serde_json::Value::Null;
    let mut acc_violations: Vec<(String, usize, Vec<crate::acc::AccOp>, String)> = vec![];
    if prop == "C14" && cfg.random_programs > 0 {
        let seqs = if thorough { 400_000 } else { 24_000 };
        let per = seqs / cfg.threads.max(1);
        let results: Vec<crate::acc::AccStage> = std::thread::scope(|s| {
            let hs: Vec<_> = (0..cfg.threads).map(|t| s.spawn(move || crate::acc::run_stage(cfg.seed.wrapping_mul(8191).wrapping_add(t as u64), per))).collect();
            hs.into_iter().filter_map(|h| h.join().ok()).collect()
        });
        let mut sequences = 0;
        let mut calls = 0;
        let mut trig = 0;
        let mut silent = 0;
        let mut kinds = BTreeSet::new();
        let mut merged: BTreeMap<String, (usize, Vec<crate::acc::AccOp>, String)> = BTreeMap::new();
        for r in results {
            sequences += r.sequences;
            calls += r.calls;
            trig += r.triggering;
            silent += r.silent;
            kinds.extend(r.kinds);
            for (sig, (n, w, m)) in r.violations {
                merged.entry(sig).or_insert((0, w, m)).0 += n;
            }
        }
        for (sig, (n, w, m)) in merged {
            acc_violations.push((sig, n, w, m));
        }
        acc_json = json!({"sequences": sequences, "accessor_calls_checked": calls, "calls_documented_to_trigger": trig, "calls_documented_not_to_trigger (listeners present)": silent, "accessor_forms_exercised": kinds});
    }
    let known = load_known(&cfg.known);
    let open: Vec<&KnownFinding> = known.iter().filter(|k| k.property == prop && k.status == "open").collect();
    let _ = std::fs::create_dir_all(&cfg.replay_dir);
    let mut new_violations = 0usize;
    let mut total_violations = 0usize;
    let mut known_matched: BTreeMap<String, usize> = BTreeMap::new();
    let mut violation_records = vec![];
    for (n, (sig, (count, witness, msg, _idx))) in g.sigs.iter().enumerate() {
        total_violations += count;
        let matched = open.iter().find(|k| sig.starts_with(&k.signature));
        // shrink and write a replay file for every distinct signature
        let small = shrink(witness, prop, sig, Duration::from_secs(3));
        let path = format!("{}/{}-{}-{}.json", cfg.replay_dir, prop, cfg.seed, n);
        let rf = ReplayFile {
            property: prop.to_string(),
            signature: sig.clone(),
            message: msg.clone(),
            seed: cfg.seed,
            tier: cfg.tier.clone(),
            original_program: witness.name.clone(),
            program: small,
        };
        let _ = std::fs::write(&path, serde_json::to_string_pretty(&rf).unwrap());
        match matched {
            Some(k) => {
                *known_matched.entry(k.id.clone()).or_insert(0) += count;
            }
            None => {
                new_violations += count;
                println!("VIOLATION property={} replay={}", prop, path);
                println!("  signature={} count={} first={}: {}", sig, count, witness.name, msg);
            }
        }
        violation_records.push(json!({"signature": sig, "count": count, "witness": witness.name, "message": msg, "replay": path, "known_finding": matched.map(|k| k.id.clone())}));
    }
    for (n, (sig, count, witness, msg)) in acc_violations.iter().enumerate() {
        total_violations += count;
        new_violations += count;
        let small = crate::acc::shrink(witness, sig);
        let path = format!("{}/{}-acc-{}-{}.json", cfg.replay_dir, prop, cfg.seed, n);
        let rf = crate::acc::AccReplay { property: prop.to_string(), signature: sig.clone(), message: msg.clone(), acc_ops: small };
        let _ = std::fs::write(&path, serde_json::to_string_pretty(&rf).unwrap());
        println!("VIOLATION property={} replay={}", prop, path);
        println!("  signature={} count={}: {}", sig, count, msg);
        violation_records.push(json!({"signature": sig, "count": count, "message": msg, "replay": path, "known_finding": serde_json::Value::Null}));
    }
    for k in open.iter() {
        println!(
            "KNOWN-FINDING: property={} {} [{}; signature {}; observed {}x in this run]",
            prop,
            k.description,
            k.id,
            k.signature,
            known_matched.get(&k.id).copied().unwrap_or(0)
        );
    }

    // verdict
    let floor = if thorough { 50 } else { 20 };
    let mut inconclusive = None;
    if !g.harness_errors.is_empty() {
        inconclusive = Some(format!("harness errors: {:?}", g.harness_errors));
    } else if cfg.no_floor {
    } else if stop.load(Ordering::Relaxed) && g.shapes.len() < floor {
        inconclusive = Some(format!("watchdog fired after {:?} with only {} distinct non-trivial shapes", t0.elapsed(), g.shapes.len()));
    } else if g.shapes.len() < floor.min(total / 4).max(2) {
        inconclusive = Some(format!("coverage floor not met: {} distinct non-trivial shapes (need {})", g.shapes.len(), floor));
    }

    let rule = nontrivial_rule(prop);
    let ev = json!({
        "property_id": prop,
        "tier": cfg.tier,
        "seed": cfg.seed,
        "level": "exploration",
        "coverage": {
            "evaluations": g.evaluations,
            "distinct_nontrivial": g.shapes.len(),
            "rule": rule,
            "samples": g.samples,
            "directed_programs": n_directed,
            "random_programs_requested": n_random,
            "profile": profile.name,
            "deep_profile_programs (thorough only: ops x2, longer bodies, more scripts/registrations, fuel x2)": if thorough { n_random / 2 } else { 0 },
            "programs_relevant": g.relevant,
            "programs_nontrivial": g.nontrivial,
            "trace_events_observed": g.events,
            "system_runs_observed": g.runs,
            "monitor_counters": g.counters,
            "stopped_by_watchdog": stop.load(Ordering::Relaxed),
            "metamorphic_stage": meta_json,
            "accessor_table_stage": acc_json,
            "build_profile": if cfg!(debug_assertions) { "debug (debug assertions on)" } else { "release" },
        },
        "assumptions": [
            "Bevy's command queue applies a body's commands in order, each followed by a flush (bracketing trick)",
            "the verif hooks report what the runner did; body-level events are the ground truth",
            "bounds: 4 entity slots, 2 types per kind, <=48 system instances, fuel-limited runs per op",
        ],
        "wall_s": t0.elapsed().as_secs_f64(),
        "violations": new_violations,
        "violations_total_including_known": total_violations,
        "violation_signatures": violation_records,
        "known_findings_matched": known_matched,
        "cross_observations": g.cross,
        "inconclusive": inconclusive,
    });
    if let Some(dir) = std::path::Path::new(&cfg.out).parent() {
        let _ = std::fs::create_dir_all(dir);
    }
    let _ = std::fs::write(&cfg.out, serde_json::to_string_pretty(&ev).unwrap());
    println!(
        "{} {}: {} programs ({} directed), {} relevant, {} non-trivial, {} distinct non-trivial shapes, {} runs, {} events, {:.1}s; violations: {} new / {} total",
        prop,
        cfg.tier,
        g.evaluations,
        n_directed,
        g.relevant,
        g.nontrivial,
        g.shapes.len(),
        g.runs,
        g.events,
        t0.elapsed().as_secs_f64(),
        new_violations,
        total_violations
    );
    if let Some(m) = &inconclusive {
        println!("INCONCLUSIVE: {}", m);
    }
    Outcome { violations: total_violations, new_violations, inconclusive }
}

pub fn nontrivial_rule(prop: &str) -> &'static str {
    match prop {
        "C01" => "programs = directed families (listeners x kill subsets, revocation position x neighbours x kind) + seeded random programs of the register-revoke-trigger profile; non-trivial = contains a trigger application with >=2 matching or >=1 near-miss (same kind, other type/entity) live registrations; distinct = distinct normalised trace shapes (event kinds in order, ids renamed) among non-trivial programs",
        "C02" => "directed recursion family (depth x fan-out x back-edge x target death x command kind) + random recursion profile; non-trivial = tree with >=1 postponed or aborted command or nesting depth >=3; distinct = distinct normalised trace shapes among those",
        "C03" => "directed family of all delivery-kind sequences (system event, broadcast, entity event, mutation, insertion, resource) x idle/busy target x alone/interleaved + random pending-mix profile; non-trivial = a delivery that reached its target while the target was executing (postponed); distinct = distinct normalised trace shapes among those",
        "C04" => "directed probes family (6 event kinds x 4 flavours x 3 positions x 3 probe forms) + random probes profile; non-trivial = a probe or manual/resource-caused run that executed while some event payload was still alive; distinct = distinct normalised trace shapes among those",
        "C05" => "directed listeners family (0..4 listeners x every killed subset x revoke/despawn, system events to idle/busy/dead/dying targets) + random listeners-and-faults profile; non-trivial = payload with >=2 scheduled readers or >=1 postponed or vanished reader; distinct = distinct normalised trace shapes among those",
        "C06" => "directed revocation family (11 trigger kinds x neighbours x position x top-level/mid-tree x whole/partial) + random revoke-heavy profile; non-trivial = a trigger applied after a revocation on a key that still has live registrations; distinct = distinct normalised trace shapes among those",
        "C07" => "directed lifetime family (mode x bundle shape x release order x split/single tree) + random lifetime profile; non-trivial = ref-counted reactor whose holder count passed through >=3 values or reached 0 mid-tree; distinct = distinct normalised trace shapes among those",
        "C08" => "directed removals family (history x reactor set x entry point x placement) + random removal-despawn profile; non-trivial = >=2 removals of one (entity, component) between polls, a despawn watched by >=2 registrations, or a cause inside a nested reaction; distinct = distinct normalised trace shapes among those",
        "C09" => "directed recursion + sequence families + random ordering profile; non-trivial = nesting depth >=3 or a postponed command with a later sibling queued after its busy ancestor; distinct = distinct normalised trace shapes among those",
        "C11" => "directed recursion + stale-reference families + random fault-heavy profile; non-trivial = a tree that contained an abort, a postponement or a self-despawning system; distinct = distinct normalised trace shapes among those",
        "C12" => "directed family of all delivery sequences over 4 kinds x idle/busy x alone/interleaved + random same-sender profile; non-trivial = a (sender run, target) pair with >=2 deliveries of which >=1 found the target busy; distinct = distinct normalised trace shapes among those",
        "C13" => "directed recursion family + random many-runs profile; non-trivial = an instance with >=3 runs of which >=1 was a replay of a postponed command; distinct = distinct normalised trace shapes among those",
        "C14" => "directed accessor family (accessor x value x entity state x calls x caller flavour) + random accessors profile; non-trivial = a non-triggering call while a listener exists, or a body with >=2 triggering calls; distinct = distinct normalised trace shapes among those. Plus the accessor-table stage (coverage.accessor_table_stage): seeded sequences of 5-30 single accessor calls over 36 public accessor and resource-management forms on a dedicated world, each judged against the documented (reactions, stored value, return value) table",
        "C15" => "directed once-lifetime family + random once profile; non-trivial = a one-off reactor with >=2 trigger applications scheduled for it; distinct = distinct normalised trace shapes among those",
        "C16" => "directed world-reactor histories + partial revocation family + random world-reactors profile; non-trivial = runs of one entity world reactor for >=2 entities in one op, or a partial removal that keeps the local data; distinct = distinct normalised trace shapes among those",
        "C18" => "directed stale-reference family (operation x despawn point, entities and systems) + random stale-references profile; non-trivial = an operation whose target was observed dead when applied or when its reaction was reached; distinct = distinct normalised trace shapes among those",
        _ => "",
    }
}

/// Re-executes a replay file, prints the trace and the verdict. Returns true if the violation reproduces.
pub fn replay(path: &str) -> bool {
    if path.contains("-acc-") {
        if let Some(hit) = crate::acc::replay(path) {
            println!("replay of {}: {}", path, if hit { "REPRODUCED" } else { "not reproduced" });
            return hit;
        }
    }
    let s = std::fs::read_to_string(path).expect("cannot read replay file");
    let rf: ReplayFile = serde_json::from_str(&s).expect("malformed replay file");
    let prog = Arc::new(rf.program);
    let ex = execute(&prog);
    for (i, e) in ex.trace.iter().enumerate() {
        let s = format!("{:?}", e);
        println!("{i:4} {}", if s.len() > 600 { &s[..600] } else { &s });
    }
    let a = analyze(&prog, &ex.trace);
    let cx = Ctx { a: &a, dels: deliveries(&a) };
    let (vs, _) = run_monitor(&rf.property, &cx);
    for v in vs.iter() {
        println!("{} @{}: {}", v.sig, v.pos, v.msg);
    }
    let hit = vs.iter().any(|v| v.sig == rf.signature);
    println!("replay of {}: expected signature {} -> {}", path, rf.signature, if hit { "REPRODUCED" } else { "not reproduced" });
    hit
}
