//! Program model: what the harness systems do is data, interpreted by generic bodies (`exec.rs`).

use serde::{Deserialize, Serialize};

use crate::types::*;

#[derive(Clone, Copy, Debug, PartialEq, Eq, Hash, Serialize, Deserialize)]
pub enum Mode {
    Persistent,
    Cleanup,
    Revokable,
}

#[derive(Clone, Copy, Debug, PartialEq, Eq, Hash, Serialize, Deserialize)]
pub enum Flavour {
    /// Ordinary system: `Commands` + readers.
    Ord,
    /// Exclusive system: `&mut World` + `SystemState` of readers.
    Excl,
    /// Ordinary system returning `DropErr`; returns `Err` after queuing its commands.
    DropErr,
    /// Ordinary system returning `WarnErr`; returns `Err` after queuing its commands.
    WarnErr,
    /// Exclusive system returning `WarnErr`; returns `Err` after applying its commands on some runs.
    ExclErr,
    /// Ordinary system returning a custom `CobwebResult` whose `handle` queues one more (marker) command on the
    /// world's command queue: work the run queued after its own deferred commands were applied.
    Follow,
    /// The zero-sized `fn` item `exec::zst_body` (no captured state): every registration of it is the *same*
    /// function type, so only the framework keeps their system states apart.
    Zst,
}

/// How a top-level op is issued.
#[derive(Clone, Copy, Debug, PartialEq, Eq, Hash, Serialize, Deserialize)]
pub enum Entry {
    /// All actions queued from one one-shot system (`Commands`), applied by one flush.
    Syscall,
    /// Each action through `World::react(|rc| ..)` where possible.
    React,
    /// Each action through the direct `World` API where possible.
    WorldApi,
    /// One `App::update()`: the actions are distributed over three ordinary `Update` systems (action i goes to
    /// system i % 3) whose relative order is `Program::frame_order`; polling happens in `Last`.
    Frame,
}

#[derive(Clone, Copy, Debug, PartialEq, Eq, Hash, Serialize, Deserialize)]
pub enum How {
    GetMut,
    SetIfNeq,
    GetNoreact,
    Read,
}

/// Which triggers to remove from a world reactor.
#[derive(Clone, Debug, PartialEq, Eq, Hash, Serialize, Deserialize)]
pub enum WrSel {
    Explicit(Vec<Trig>),
    /// The `which`-th bundle added so far (modulo); part 0 = whole bundle, k > 0 = only trigger (k-1) % len.
    Added { which: u8, part: u8 },
}

/// Entity reference: `0..NE` = current id of the slot, `NE..2*NE` = previous (stale) id of slot `r - NE`.
pub type EntRef = u8;

#[derive(Clone, Debug, PartialEq, Eq, Hash, Serialize, Deserialize)]
pub enum Act {
    Mark,
    Run(u8),
    SendSe(u8, u8),
    /// `SystemCommand(entity)` queued / sent a system event where the entity is one of the plain entity slots.
    RunEnt(EntRef),
    SendSeEnt(EntRef, u8),
    Broadcast(u8),
    EntityEv(EntRef, u8),
    Insert(EntRef, u8, u32),
    Access(EntRef, u8, How, u32),
    TriggerMutation(EntRef, u8),
    Remove(EntRef, u8),
    DespawnEnt(EntRef),
    /// `AutoDespawner::prepare(entity)` + immediate drop of the signal
    AutoDespawnEnt(EntRef),
    RespawnEnt(u8),
    ResAccess(u8, How, u32),
    ResTrigger(u8),
    /// form: bundle shape (`form % N_SHAPES`, 0 = `DynBundle`, otherwise real tuples) and registration API
    /// (`form / N_SHAPES % 2`: 0 = `spawn_system_command` + `with`, 1 = `on` / `on_persistent` / `on_revokable`).
    Register {
        mode: Mode,
        once: bool,
        bundle: Vec<Trig>,
        flavour: Flavour,
        script: u8,
        #[serde(default)]
        form: u8,
    },
    SpawnSys { flavour: Flavour, script: u8 },
    With { sys: u8, bundle: Vec<Trig> },
    Revoke(u8),
    DespawnSys(u8),
    Probe(bool),
    WrAdd(u8, Vec<Trig>),
    WrRemove(u8, WrSel),
    WrRun(u8),
    EwAdd(u8, EntRef, u32),
    /// part: 0 = whole bundle, 1..=2 = single trigger (partial removal), 3 = the bundles of this entity and of the
    /// next slot's entity in one call
    EwRemove(u8, EntRef, u8),
    Poll,
    Gc,
}

impl Act {
    pub fn kind_name(&self) -> &'static str {
        match self {
            Act::Mark => "Mark",
            Act::Run(_) => "Run",
            Act::SendSe(..) => "SendSe",
            Act::RunEnt(_) => "RunEnt",
            Act::SendSeEnt(..) => "SendSeEnt",
            Act::Broadcast(_) => "Broadcast",
            Act::EntityEv(..) => "EntityEv",
            Act::Insert(..) => "Insert",
            Act::Access(..) => "Access",
            Act::TriggerMutation(..) => "TriggerMutation",
            Act::Remove(..) => "Remove",
            Act::DespawnEnt(_) => "DespawnEnt",
            Act::AutoDespawnEnt(_) => "AutoDespawnEnt",
            Act::RespawnEnt(_) => "RespawnEnt",
            Act::ResAccess(..) => "ResAccess",
            Act::ResTrigger(_) => "ResTrigger",
            Act::Register { .. } => "Register",
            Act::SpawnSys { .. } => "SpawnSys",
            Act::With { .. } => "With",
            Act::Revoke(_) => "Revoke",
            Act::DespawnSys(_) => "DespawnSys",
            Act::Probe(_) => "Probe",
            Act::WrAdd(..) => "WrAdd",
            Act::WrRemove(..) => "WrRemove",
            Act::WrRun(_) => "WrRun",
            Act::EwAdd(..) => "EwAdd",
            Act::EwRemove(..) => "EwRemove",
            Act::Poll => "Poll",
            Act::Gc => "Gc",
        }
    }
}

#[derive(Clone, Debug, PartialEq, Eq, Hash, Serialize, Deserialize)]
pub struct Script {
    /// Actions for run ordinal k (0-based).
    pub runs: Vec<Vec<Act>>,
    /// If true, ordinal k uses `runs[k % len]`; otherwise runs beyond the last do nothing.
    pub cyclic: bool,
}

impl Script {
    pub fn acts(&self, ordinal0: usize) -> &[Act] {
        if self.runs.is_empty() {
            return &[];
        }
        if self.cyclic {
            &self.runs[ordinal0 % self.runs.len()]
        } else {
            self.runs.get(ordinal0).map(|v| v.as_slice()).unwrap_or(&[])
        }
    }
}

#[derive(Clone, Debug, PartialEq, Eq, Hash, Serialize, Deserialize)]
pub struct Op {
    pub entry: Entry,
    pub acts: Vec<Act>,
}

#[derive(Clone, Debug, PartialEq, Eq, Hash, Serialize, Deserialize)]
pub struct Program {
    pub name: String,
    pub scripts: Vec<Script>,
    pub ops: Vec<Op>,
    /// Runs allowed per top-level op.
    pub fuel: u32,
    /// Which entity slots start with which components: `init_comps[slot][comp]`.
    pub init_comps: [[Option<u32>; NT]; NE],
    /// Permutation index (0..6) of the three frame systems used by `Entry::Frame` ops.
    #[serde(default)]
    pub frame_order: u8,
    /// Reactors registered while the app is built, through `App::add_reactor` (persistent).
    #[serde(default)]
    pub app_reactors: Vec<AppReactor>,
    /// Starting triggers of world reactor 1 (`App::add_world_reactor_with`).
    #[serde(default)]
    pub wr_start: Vec<Trig>,
}

#[derive(Clone, Debug, PartialEq, Eq, Hash, Serialize, Deserialize)]
pub struct AppReactor {
    pub bundle: Vec<Trig>,
    pub script: u8,
    pub flavour: Flavour,
    #[serde(default)]
    pub shape: u8,
}

//-------------------------------------------------------------------------------------------------------------------
// PRNG (xorshift64*), no dependence on wall clock or hash order.

#[derive(Clone)]
pub struct Rng(pub u64);

impl Rng {
    pub fn new(seed: u64) -> Self {
        let mut z = seed.wrapping_add(0x9E3779B97F4A7C15);
        z = (z ^ (z >> 30)).wrapping_mul(0xBF58476D1CE4E5B9);
        z = (z ^ (z >> 27)).wrapping_mul(0x94D049BB133111EB);
        z ^= z >> 31;
        Rng(z | 1)
    }
    pub fn next(&mut self) -> u64 {
        let mut x = self.0;
        x ^= x >> 12;
        x ^= x << 25;
        x ^= x >> 27;
        self.0 = x;
        x.wrapping_mul(0x2545F4914F6CDD1D)
    }
    pub fn below(&mut self, n: usize) -> usize {
        if n == 0 {
            return 0;
        }
        (self.next() % n as u64) as usize
    }
    pub fn range(&mut self, lo: usize, hi_incl: usize) -> usize {
        lo + self.below(hi_incl - lo + 1)
    }
    pub fn chance(&mut self, pct: usize) -> bool {
        self.below(100) < pct
    }
    pub fn pick<'a, T>(&mut self, v: &'a [T]) -> &'a T {
        &v[self.below(v.len())]
    }
}

//-------------------------------------------------------------------------------------------------------------------
// Random generation

/// Relative weights of action kinds.
#[derive(Clone, Debug)]
pub struct Weights {
    pub mark: u32,
    pub run: u32,
    pub send_se: u32,
    pub broadcast: u32,
    pub entity_ev: u32,
    pub insert: u32,
    pub access: u32,
    pub trigger_mutation: u32,
    pub remove: u32,
    pub despawn_ent: u32,
    pub respawn_ent: u32,
    pub res_access: u32,
    pub res_trigger: u32,
    pub register: u32,
    pub once: u32,
    pub spawn_sys: u32,
    pub with: u32,
    pub revoke: u32,
    pub despawn_sys: u32,
    pub probe: u32,
    pub wr: u32,
    pub ew: u32,
    pub poll: u32,
    pub gc: u32,
    /// commands / system events addressed to plain entities
    pub stray: u32,
}

impl Weights {
    pub fn base() -> Self {
        Weights {
            mark: 4,
            run: 8,
            send_se: 10,
            broadcast: 9,
            entity_ev: 9,
            insert: 6,
            access: 9,
            trigger_mutation: 2,
            remove: 4,
            despawn_ent: 3,
            respawn_ent: 3,
            res_access: 5,
            res_trigger: 2,
            register: 8,
            once: 2,
            spawn_sys: 2,
            with: 2,
            revoke: 6,
            despawn_sys: 2,
            probe: 3,
            wr: 4,
            ew: 4,
            poll: 1,
            gc: 1,
            stray: 1,
        }
    }
    fn table(&self) -> [(u32, u8); 25] {
        [
            (self.mark, 0),
            (self.run, 1),
            (self.send_se, 2),
            (self.broadcast, 3),
            (self.entity_ev, 4),
            (self.insert, 5),
            (self.access, 6),
            (self.trigger_mutation, 7),
            (self.remove, 8),
            (self.despawn_ent, 9),
            (self.respawn_ent, 10),
            (self.res_access, 11),
            (self.res_trigger, 12),
            (self.register, 13),
            (self.once, 14),
            (self.spawn_sys, 15),
            (self.with, 16),
            (self.revoke, 17),
            (self.despawn_sys, 18),
            (self.probe, 19),
            (self.wr, 20),
            (self.ew, 21),
            (self.poll, 22),
            (self.gc, 23),
            (self.stray, 24),
        ]
    }
}

/// Generation parameters of a profile.
#[derive(Clone, Debug)]
pub struct Profile {
    pub name: &'static str,
    pub w: Weights,
    /// Weights of trigger kinds (index = `Trig::kind_index`).
    pub trig_w: [u32; 11],
    pub max_bundle: usize,
    pub stale_pct: usize,
    pub ops: (usize, usize),
    pub acts_per_op: (usize, usize),
    pub scripts: (usize, usize),
    pub runs_per_script: (usize, usize),
    pub acts_per_run: (usize, usize),
    pub cyclic_pct: usize,
    pub init_regs: (usize, usize),
    pub fuel: u32,
    pub flavour_w: [u32; 4],
    pub entry_w: [u32; 4],
    pub mode_w: [u32; 3],
    /// Percentage of systems that are the zero-sized fn item.
    pub zst_pct: usize,
    /// Number of reactors registered through `App::add_reactor`.
    pub app_reactors: (usize, usize),
}

impl Profile {
    pub fn base(name: &'static str) -> Self {
        Profile {
            name,
            w: Weights::base(),
            trig_w: [4, 4, 3, 3, 4, 3, 3, 4, 3, 3, 3],
            max_bundle: 3,
            stale_pct: 10,
            ops: (3, 8),
            acts_per_op: (1, 3),
            scripts: (3, 6),
            runs_per_script: (1, 4),
            acts_per_run: (0, 4),
            cyclic_pct: 30,
            init_regs: (3, 6),
            fuel: 40,
            flavour_w: [6, 2, 1, 1],
            // a few ops of every profile are whole `App::update()` frames (change ticks advance, polling runs in `Last`)
            entry_w: [6, 2, 2, 1],
            mode_w: [3, 4, 4],
            zst_pct: 12,
            app_reactors: (0, 2),
        }
    }
}

fn weighted(r: &mut Rng, w: &[u32]) -> usize {
    let total: u32 = w.iter().sum();
    if total == 0 {
        return 0;
    }
    let mut x = r.below(total as usize) as u32;
    for (i, wi) in w.iter().enumerate() {
        if x < *wi {
            return i;
        }
        x -= wi;
    }
    w.len() - 1
}

pub fn gen_entref(r: &mut Rng, p: &Profile) -> EntRef {
    let s = r.below(NE) as u8;
    if r.chance(p.stale_pct) {
        s + NE as u8
    } else {
        s
    }
}

pub fn gen_trig(r: &mut Rng, p: &Profile) -> Trig {
    let s = gen_entref(r, p);
    let t = r.below(NT) as u8;
    match weighted(r, &p.trig_w) {
        0 => Trig::Bc(t),
        1 => Trig::Ee(s, t),
        2 => Trig::AnyEe(t),
        3 => Trig::Ins(t),
        4 => Trig::Mut(t),
        5 => Trig::Rem(t),
        6 => Trig::EIns(s, t),
        7 => Trig::EMut(s, t),
        8 => Trig::ERem(s, t),
        9 => Trig::Desp(s),
        _ => Trig::Res(t),
    }
}

pub fn gen_bundle(r: &mut Rng, p: &Profile, min: usize) -> Vec<Trig> {
    let n = r.range(min, p.max_bundle.max(min));
    let mut b: Vec<Trig> = vec![];
    let mut guard = 0;
    while b.len() < n && guard < 50 {
        guard += 1;
        let t = gen_trig(r, p);
        // Duplicate triggers inside one bundle are outside the quantifiers (tolerance 6).
        if !b.contains(&t) {
            b.push(t);
        }
    }
    b
}

pub fn gen_flavour(r: &mut Rng, p: &Profile) -> Flavour {
    if r.chance(p.zst_pct) {
        return Flavour::Zst;
    }
    if r.chance(5) {
        return Flavour::ExclErr;
    }
    if r.chance(5) {
        return Flavour::Follow;
    }
    match weighted(r, &p.flavour_w) {
        0 => Flavour::Ord,
        1 => Flavour::Excl,
        2 => Flavour::DropErr,
        _ => Flavour::WarnErr,
    }
}

pub fn gen_mode(r: &mut Rng, p: &Profile) -> Mode {
    match weighted(r, &p.mode_w) {
        0 => Mode::Persistent,
        1 => Mode::Cleanup,
        _ => Mode::Revokable,
    }
}

pub fn gen_how(r: &mut Rng) -> How {
    match r.below(10) {
        0..=4 => How::GetMut,
        5..=7 => How::SetIfNeq,
        8 => How::GetNoreact,
        _ => How::Read,
    }
}

/// World reactor trigger bundles never contain `Desp` triggers of stale entities etc. -- any trigger is allowed.
pub fn gen_act(r: &mut Rng, p: &Profile) -> Act {
    let table = p.w.table();
    let ws: Vec<u32> = table.iter().map(|x| x.0).collect();
    let k = table[weighted(r, &ws)].1;
    let x = r.below(64) as u8;
    let t = r.below(NT) as u8;
    match k {
        0 => Act::Mark,
        1 => Act::Run(x),
        2 => Act::SendSe(x, t),
        3 => Act::Broadcast(t),
        4 => Act::EntityEv(gen_entref(r, p), t),
        5 => Act::Insert(gen_entref(r, p), t, r.below(3) as u32),
        6 => Act::Access(gen_entref(r, p), t, gen_how(r), r.below(3) as u32),
        7 => Act::TriggerMutation(gen_entref(r, p), t),
        8 => Act::Remove(gen_entref(r, p), t),
        9 => {
            if r.chance(25) {
                Act::AutoDespawnEnt(gen_entref(r, p))
            } else {
                Act::DespawnEnt(gen_entref(r, p))
            }
        }
        10 => Act::RespawnEnt(r.below(NE) as u8),
        11 => Act::ResAccess(t, gen_how(r), r.below(3) as u32),
        12 => Act::ResTrigger(t),
        13 => Act::Register {
            mode: gen_mode(r, p),
            once: false,
            bundle: gen_bundle(r, p, 0),
            flavour: gen_flavour(r, p),
            script: x,
            form: r.below(8) as u8,
        },
        14 => Act::Register {
            mode: Mode::Revokable,
            once: true,
            bundle: gen_bundle(r, p, 0),
            flavour: gen_flavour(r, p),
            script: x,
            form: r.below(8) as u8,
        },
        15 => Act::SpawnSys { flavour: gen_flavour(r, p), script: x },
        16 => Act::With { sys: x, bundle: gen_bundle(r, p, 1) },
        17 => Act::Revoke(x),
        18 => Act::DespawnSys(x),
        19 => Act::Probe(r.chance(30)),
        20 => match r.below(5) {
            0 | 1 => Act::WrAdd(t, gen_bundle(r, p, 1)),
            2 => Act::WrRemove(t, WrSel::Explicit(gen_bundle(r, p, 1))),
            3 => Act::WrRemove(t, WrSel::Added { which: x, part: r.below(3) as u8 }),
            _ => Act::WrRun(t),
        },
        21 => match r.below(5) {
            0 | 1 | 2 => Act::EwAdd(t, gen_entref(r, p), 10 + r.below(5) as u32 * 10),
            _ => Act::EwRemove(t, gen_entref(r, p), r.below(4) as u8),
        },
        22 => Act::Poll,
        23 => Act::Gc,
        _ => {
            if r.chance(40) {
                Act::RunEnt(gen_entref(r, p))
            } else {
                Act::SendSeEnt(gen_entref(r, p), t)
            }
        }
    }
}

pub fn gen_script(r: &mut Rng, p: &Profile) -> Script {
    let nruns = r.range(p.runs_per_script.0, p.runs_per_script.1);
    let runs = (0..nruns)
        .map(|_| {
            let n = r.range(p.acts_per_run.0, p.acts_per_run.1);
            (0..n).map(|_| gen_act(r, p)).collect()
        })
        .collect();
    Script { runs, cyclic: r.chance(p.cyclic_pct) }
}

pub fn gen_entry(r: &mut Rng, p: &Profile) -> Entry {
    match weighted(r, &p.entry_w) {
        0 => Entry::Syscall,
        1 => Entry::React,
        2 => Entry::WorldApi,
        _ => Entry::Frame,
    }
}

pub fn gen_program(seed: u64, p: &Profile) -> Program {
    let mut r = Rng::new(seed);
    let nscripts = r.range(p.scripts.0, p.scripts.1);
    let scripts: Vec<Script> = (0..nscripts).map(|_| gen_script(&mut r, p)).collect();
    let nops = r.range(p.ops.0, p.ops.1);
    let mut ops = vec![];
    // op 0: setup registrations
    let nreg = r.range(p.init_regs.0, p.init_regs.1);
    let mut acts = vec![];
    for _ in 0..nreg {
        let once = r.chance(8);
        acts.push(Act::Register {
            mode: if once { Mode::Revokable } else { gen_mode(&mut r, p) },
            once,
            bundle: gen_bundle(&mut r, p, 1),
            flavour: gen_flavour(&mut r, p),
            script: r.below(64) as u8,
            form: r.below(8) as u8,
        });
    }
    if r.chance(50) {
        acts.push(Act::SpawnSys { flavour: gen_flavour(&mut r, p), script: r.below(64) as u8 });
    }
    if p.w.ew > 0 && r.chance(60) {
        acts.push(Act::EwAdd(r.below(NT) as u8, r.below(NE) as u8, 10));
    }
    if p.w.wr > 0 && r.chance(60) {
        acts.push(Act::WrAdd(r.below(NT) as u8, gen_bundle(&mut r, p, 1)));
    }
    ops.push(Op { entry: Entry::Syscall, acts });
    for _ in 1..nops {
        let n = r.range(p.acts_per_op.0, p.acts_per_op.1);
        let acts = (0..n).map(|_| gen_act(&mut r, p)).collect();
        ops.push(Op { entry: gen_entry(&mut r, p), acts });
    }
    let mut init_comps = [[None; NT]; NE];
    for s in 0..NE {
        for c in 0..NT {
            if r.chance(60) {
                init_comps[s][c] = Some(r.below(3) as u32);
            }
        }
    }
    let frame_order = r.below(6) as u8;
    let n_app = r.range(p.app_reactors.0, p.app_reactors.1);
    let app_reactors = (0..n_app)
        .map(|_| {
            // only current entity slots exist while the app is built
            let bundle: Vec<Trig> = gen_bundle(&mut r, p, 1)
                .into_iter()
                .map(|t| match t {
                    Trig::Ee(s, n) => Trig::Ee(s % NE as u8, n),
                    Trig::EIns(s, n) => Trig::EIns(s % NE as u8, n),
                    Trig::EMut(s, n) => Trig::EMut(s % NE as u8, n),
                    Trig::ERem(s, n) => Trig::ERem(s % NE as u8, n),
                    Trig::Desp(s) => Trig::Desp(s % NE as u8),
                    t => t,
                })
                .collect();
            AppReactor {
                bundle,
                script: r.below(64) as u8,
                flavour: if r.chance(60) { Flavour::Zst } else { gen_flavour(&mut r, p) },
                shape: r.below(4) as u8,
            }
        })
        .collect();
    let wr_start = if p.w.wr > 0 && r.chance(30) { gen_bundle(&mut r, p, 1).into_iter().filter(|t| t.ent_ref().map(|s| (s as usize) < NE).unwrap_or(true)).collect() } else { vec![] };
    Program { name: format!("{}-{}", p.name, seed), scripts, ops, fuel: p.fuel, init_comps, frame_order, app_reactors, wr_start }
}
