//! The trace: an append-only event log written in real time by harness bodies, marker commands, payload and canary
//! drops, and the runner hook.

use serde::Serialize;
use std::sync::Mutex;

use crate::program::{Entry, Flavour, Mode};
use crate::types::*;

pub type RunId = u32;
pub type CmdId = u32;
pub type PayId = u32;
pub type Inst = usize;

/// Facts sampled from the real world at the instant a marker command is applied.
#[derive(Clone, Debug, Default, PartialEq, Eq, Serialize)]
pub struct Facts {
    /// Liveness bit per registry entity (see `Ev::EntRegistered`).
    pub ents_alive: u32,
    /// Liveness bit per system instance.
    pub sys_alive: u64,
    /// Component values per registry entity.
    pub comps: Vec<[Option<u32>; NT]>,
    /// Reactive resource values.
    pub res: [u32; NT],
}

impl Facts {
    pub fn ent_alive(&self, idx: usize) -> bool {
        self.ents_alive & (1 << idx) != 0
    }
    pub fn sys_alive(&self, inst: Inst) -> bool {
        self.sys_alive & (1 << inst) != 0
    }
}

/// Serializable copy of `bevy_cobweb::verif::Snapshot` plus harness-side counts.
#[derive(Clone, Debug, Default, PartialEq, Eq, Serialize)]
pub struct Snap {
    pub syscommand_counter: usize,
    pub buffered_len: usize,
    pub prepared_len: [usize; 4],
    pub reacting: [bool; 4],
    pub despawn_handle_held: bool,
    pub storages: usize,
    pub storages_without_callback: usize,
    pub tables: [usize; 7],
    pub entity_reactor_entries: usize,
    pub entity_reactor_entities: usize,
    pub data_entities: usize,
    pub system_event_data: usize,
    /// Total number of entities in the world.
    pub world_entities: usize,
}

impl Snap {
    pub fn residue(&self) -> Vec<String> {
        let mut r = vec![];
        if self.syscommand_counter != 0 {
            r.push(format!("syscommand_counter={}", self.syscommand_counter));
        }
        if self.buffered_len != 0 {
            r.push(format!("buffered_len={}", self.buffered_len));
        }
        if self.prepared_len != [0; 4] {
            r.push(format!("prepared_len={:?}", self.prepared_len));
        }
        if self.reacting != [false; 4] {
            r.push(format!("reacting={:?}", self.reacting));
        }
        if self.despawn_handle_held {
            r.push("despawn_handle_held".into());
        }
        if self.storages_without_callback != 0 {
            r.push(format!("storages_without_callback={}", self.storages_without_callback));
        }
        if self.data_entities != 0 {
            r.push(format!("data_entities={}", self.data_entities));
        }
        if self.system_event_data != 0 {
            r.push(format!("system_event_data={}", self.system_event_data));
        }
        r
    }
}

#[derive(Clone, Copy, Debug, PartialEq, Eq, Serialize)]
pub enum HKind {
    System,
    SystemEvent,
    Resource,
    Insertion(u64),
    Mutation(u64),
    Removal(u64),
    Despawn(u64),
    EntityEvent(u64),
    Broadcast,
}

#[derive(Clone, Copy, Debug, PartialEq, Eq, Serialize)]
pub enum HAbort {
    EntityMissing,
    StorageMissing,
    CallbackMissingAtRoot,
}

/// Runner hook events (target = entity bits of the system command).
#[derive(Clone, Copy, Debug, PartialEq, Eq, Serialize)]
pub enum HookEv {
    Apply { target: u64, kind: HKind },
    Enter { target: u64, counter: usize },
    Abort { target: u64, reason: HAbort },
    Postponed { target: u64 },
    RunBegin { target: u64 },
    RunEnd { target: u64, reinserted: bool },
    Replay { target: u64 },
    Discard { target: u64 },
    Exit { target: u64 },
}

#[derive(Clone, Copy, Debug, PartialEq, Eq, Serialize)]
pub enum MutHow {
    GetMut,
    SetIfNeq,
    GetNoreact,
    /// Read-only access (`get`)
    Read,
}

#[derive(Clone, Copy, Debug, PartialEq, Eq, Serialize)]
pub enum SysKindTag {
    Plain,
    Reactor,
    Once,
    WorldReactor(u8),
    EntityWorldReactor(u8),
    Probe,
}

/// A resolved action: what a body (or the driver) actually issued.
#[derive(Clone, Debug, PartialEq, Serialize)]
pub enum RAct {
    Mark,
    Run { inst: Inst },
    SendSe { inst: Inst, ty: u8, pay: PayId },
    /// A system command / system event addressed to an entity that is not (or no longer) a system: one of the
    /// harness's plain entities.
    RunEnt { ent: u64 },
    SendSeEnt { ent: u64, ty: u8, pay: PayId },
    Broadcast { ty: u8, pay: PayId },
    EntityEv { ent: u64, ty: u8, pay: PayId },
    Insert { ent: u64, comp: u8, val: u32, queued: bool },
    /// Accessor call made at body time. `hit`: the accessor found the component. `triggers`: a reaction trigger is
    /// expected according to the documentation.
    Access { ent: u64, comp: u8, how: MutHow, hit: bool, old: Option<u32>, new: u32, after: Option<u32>, ret_some: bool, triggers: bool },
    TriggerMutation { ent: u64, comp: u8 },
    Remove { ent: u64, comp: u8 },
    DespawnEnt { ent: u64 },
    RespawnEnt { slot: u8 },
    /// The entity is prepared for auto-despawn and the signal is dropped at once: it goes with the next collection.
    AutoDespawnEnt { ent: u64 },
    ResAccess { ty: u8, how: MutHow, old: u32, new: u32, after: u32, ret_some: bool, triggers: bool },
    ResTrigger { ty: u8 },
    Register { inst: Inst, mode: Mode, once: bool, flavour: Flavour, script: usize, bundle: Vec<RTrig>, form: u8 },
    SpawnSys { inst: Inst, flavour: Flavour, script: usize },
    With { inst: Inst, bundle: Vec<RTrig> },
    Revoke { token: usize },
    DespawnSys { inst: Inst },
    Probe { via_syscall: bool },
    WrAdd { wr: u8, inst: Inst, bundle: Vec<RTrig> },
    WrRemove { wr: u8, inst: Inst, bundle: Vec<RTrig> },
    WrRun { wr: u8, inst: Inst },
    EwAdd { ew: u8, inst: Inst, ent: u64, data: u32 },
    EwRemove { ew: u8, inst: Inst, ents: Vec<u64>, bundle: Vec<RTrig> },
    Poll,
    Gc,
    Noop,
}

#[derive(Clone, Debug, Serialize)]
pub enum Ev {
    /// A new entity id entered the registry at index `idx` for slot `slot`.
    EntRegistered { idx: usize, slot: u8, ent: u64 },
    /// A system instance was created (entity id known to the harness).
    SysCreated { inst: Inst, ent: u64, kind: SysKindTag, flavour: Flavour, script: usize },
    OpStart { op: usize, entry: Entry, run: RunId },
    OpEnd { op: usize, facts: Facts },
    /// Written before the world is torn down.
    End,
    /// Quiescent point: after the op, explicit poll and garbage collection.
    Quiescent { op: usize, snap: Snap, facts: Facts, ew_local: Vec<(u8, u64, bool)> },
    /// Snapshot right after the op's outermost flush returned (before the harness polls).
    Snapshot { op: usize, phase: u8, snap: Snap },
    PollStart { op: usize },
    PollEnd { op: usize },
    RunStart { run: RunId, inst: Inst, ordinal: u32, local: u32, obs: Obs, fuel: u32 },
    BodyEnd { run: RunId, err: bool },
    Issued { run: RunId, seq: u32, cmd: CmdId, act: RAct },
    Pre { cmd: CmdId, facts: Facts },
    Post { cmd: CmdId, facts: Facts },
    /// Written by command closures at application time.
    Applied { cmd: CmdId, note: Note },
    ProbeObs { cmd: CmdId, obs: Obs },
    PayloadDrop { id: PayId },
    CanaryDrop { inst: Inst },
    Hook(HookEv),
    /// Written by the `on_remove` component hook of the harness's marker component: the entity is being despawned
    /// (by whatever means); `had[c]`: it still carried reactive component c.
    EntGone { ent: u64, had: [bool; NT] },
    Panic { op: usize, msg: String },
}

#[derive(Clone, Debug, PartialEq, Serialize)]
pub enum Note {
    /// Removal command: entity alive, component present at that instant.
    Removed { ent: u64, comp: u8, had: bool },
    /// Despawn command: was alive, which components it had.
    Despawned { ent: u64, was_alive: bool, had: [bool; NT] },
    Respawned { slot: u8, idx: usize, ent: u64 },
    /// Registration applied: per-trigger liveness of the named entity, token index (if any).
    Registered { inst: Inst, alive: Vec<bool>, token: Option<usize>, sys_alive: bool },
    Revoked { token: usize },
    SysDespawned { inst: Inst, was_alive: bool },
    Published { inst: Inst },
    /// Accessor called from a command closure (app mode / direct world access).
    Direct(String),
    /// Table sizes sampled right before (phase 0) / after (phase 1) a revocation command.
    Tables { phase: u8, tables: [usize; 7], entity_entries: usize },
}

/// Shared between all harness closures of one world.
pub struct Shared {
    pub trace: Mutex<Vec<Ev>>,
    pub st: Mutex<crate::exec::St>,
}

impl Shared {
    pub fn push(&self, ev: Ev) {
        lk(&self.trace).push(ev);
    }
}
