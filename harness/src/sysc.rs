//! C17 engine: random call sequences over the syscall family, checked against a small keyed-state model.

use bevy::prelude::*;
use bevy_cobweb::prelude::*;
use serde::{Deserialize, Serialize};
use serde_json::json;
use std::collections::{BTreeMap, BTreeSet};
use std::sync::{Arc, Mutex};
use std::time::Instant;

use crate::program::Rng;
use crate::types::lk;

pub const NF: u8 = 3; // function types
pub const NN: u8 = 3; // names
pub const NS: u8 = 3; // spawned slots

/// Which function: `Ord(i)` ordinary system (nested ops run from a queued command), `Excl(i)` exclusive system
/// (nested ops run from inside the body).
#[derive(Clone, Copy, Debug, PartialEq, Eq, Hash, PartialOrd, Ord, Serialize, Deserialize)]
pub enum Fun {
    Ord(u8),
    Excl(u8),
}

#[derive(Clone, Debug, PartialEq, Eq, Serialize, Deserialize)]
pub enum Op {
    /// via: 0 `syscall(world, ..)`, 1 `World::syscall`, 2 `syscall_with_validation`, 3 `World::syscall_with_validation`,
    /// 4 as 0
    Syscall {
        f: Fun,
        x: u32,
        nested: Vec<Op>,
        #[serde(default)]
        via: u8,
    },
    /// via: 0 `World::syscall_once`, 1 `World::syscall_once_with_validation`
    SyscallOnce {
        f: Fun,
        x: u32,
        nested: Vec<Op>,
        #[serde(default)]
        via: u8,
    },
    /// `Commands` forms issued from a one-shot driver system. via: 0 `Commands::syscall`, 1
    /// `Commands::syscall_with_validation`, 2 `Commands::syscall_once`, 3 `Commands::syscall_once_with_validation`,
    /// 4..7 the same four through `EntityCommands`, 8 `World::syscall` of the same unit function (same key as 0, 1, 4, 5)
    CmdSyscall {
        f: Fun,
        x: u32,
        nested: Vec<Op>,
        #[serde(default)]
        via: u8,
    },
    Named { name: u8, f: Fun, x: u32, nested: Vec<Op> },
    NamedDirect { name: u8, f: Fun, x: u32, nested: Vec<Op> },
    RegisterNamed { name: u8, f: Fun },
    /// `IdMappedSystems::revoke` (via 0) / `revoke_sysname` (via 1)
    RevokeNamed {
        name: u8,
        f: Fun,
        #[serde(default)]
        via: u8,
    },
    /// via: 0 `spawn_system(world, ..)`, 1 `Commands::spawn_system`, 2 `Commands::insert_system` on a fresh entity,
    /// 3 `spawn_rc_system` (the signal is kept until `DespawnSpawned`), 4 `spawn_system` of the unit-returning variant
    /// (the only kind `Commands::spawned_syscall` can run)
    Spawn {
        slot: u8,
        f: Fun,
        #[serde(default)]
        via: u8,
    },
    Spawned { slot: u8, x: u32, nested: Vec<Op> },
    CmdSpawned { slot: u8, x: u32, nested: Vec<Op> },
    DespawnSpawned { slot: u8 },
}

#[derive(Clone, Debug, PartialEq, Eq, Serialize)]
pub enum Outc {
    /// (f(x), local counter)
    Ok(u32, u32),
    Err,
    /// operation without a result (register / spawn / despawn)
    Done,
    /// command forms: the called system logs its result itself
    Queued,
}

#[derive(Clone, Debug, PartialEq, Eq, Serialize)]
pub enum LogEv {
    Call(u32),
    Body { call: u32, f: Fun, x: u32, local: u32 },
    MarkerApplied(u32),
    Return { call: u32, res: Outc },
}

#[derive(Resource, Clone)]
struct Log(Arc<Mutex<LogState>>);

struct LogState {
    evs: Vec<LogEv>,
    next_call: u32,
    ids: [Option<SysId>; NS as usize],
    signals: [Option<AutoDespawnSignal>; NS as usize],
    validations: u32,
}

fn note_validation(w: &mut World) {
    let log = w.resource::<Log>().clone();
    lk(&log.0).validations += 1;
}

fn revoke_named<S: 'static>(w: &mut World, _: &S, name: u8, via: u8) {
    if let Some(mut m) = w.get_resource_mut::<IdMappedSystems<In<Input>, (u32, u32)>>() {
        if via % 2 == 0 {
            m.revoke::<S>(name);
        } else {
            m.revoke_sysname(SysName::new::<S>(name));
        }
    }
}

type Input = (u32, u32, Vec<Op>); // (x, call id, nested)

fn konst(i: u8) -> u32 {
    100 * (i as u32 + 1)
}

fn ord_sys<const I: u8>(In((x, call, nested)): In<Input>, mut l: Local<u32>, mut c: Commands, log: bevy::prelude::Res<Log>) -> (u32, u32) {
    *l += 1;
    lk(&log.0).evs.push(LogEv::Body { call, f: Fun::Ord(I), x, local: *l });
    let lg = log.clone();
    c.queue(move |w: &mut World| {
        lk(&lg.0).evs.push(LogEv::MarkerApplied(call));
        exec_ops(w, &nested);
    });
    (x + konst(I), *l)
}

fn excl_sys<const I: u8>(In((x, call, nested)): In<Input>, world: &mut World, mut l: Local<u32>) -> (u32, u32) {
    *l += 1;
    let log = world.resource::<Log>().clone();
    lk(&log.0).evs.push(LogEv::Body { call, f: Fun::Excl(I), x, local: *l });
    world.commands().queue(move |w: &mut World| {
        let lg = w.resource::<Log>().clone();
        lk(&lg.0).evs.push(LogEv::MarkerApplied(call));
    });
    exec_ops(world, &nested);
    (x + 7 * konst(I), *l)
}

/// Unit-returning variants for the `Commands` forms (the result is logged by the system itself).
fn ord_sys_unit<const I: u8>(In(input): In<Input>, l: Local<u32>, c: Commands, log: bevy::prelude::Res<Log>) {
    let call = input.1;
    let lg = log.clone();
    let (v, n) = ord_sys::<I>(In(input), l, c, log);
    lk(&lg.0).evs.push(LogEv::Return { call, res: Outc::Ok(v, n) });
}

fn expected_value(f: Fun, x: u32) -> u32 {
    match f {
        Fun::Ord(i) => x + konst(i),
        Fun::Excl(i) => x + 7 * konst(i),
    }
}

macro_rules! with_fun {
    ($f:expr, $ord:ident, $excl:ident, $body:expr) => {
        match $f {
            Fun::Ord(0) => {
                let $ord = ord_sys::<0>;
                $body
            }
            Fun::Ord(1) => {
                let $ord = ord_sys::<1>;
                $body
            }
            Fun::Ord(_) => {
                let $ord = ord_sys::<2>;
                $body
            }
            Fun::Excl(0) => {
                let $ord = excl_sys::<0>;
                $body
            }
            Fun::Excl(1) => {
                let $ord = excl_sys::<1>;
                $body
            }
            Fun::Excl(_) => {
                let $ord = excl_sys::<2>;
                $body
            }
        }
    };
}

fn sysname<S: 'static>(_: &S, name: u8) -> SysName {
    SysName::new::<S>(name)
}

fn new_call(w: &World) -> (Log, u32) {
    let log = w.resource::<Log>().clone();
    let call = {
        let mut g = lk(&log.0);
        let c = g.next_call;
        g.next_call += 1;
        g.evs.push(LogEv::Call(c));
        c
    };
    (log, call)
}

fn ret(log: &Log, call: u32, res: Outc) {
    lk(&log.0).evs.push(LogEv::Return { call, res });
}

pub fn exec_ops(w: &mut World, ops: &[Op]) {
    for op in ops {
        exec_op(w, op);
    }
}

fn exec_op(w: &mut World, op: &Op) {
    let (log, call) = new_call(w);
    match op.clone() {
        Op::Syscall { f, x, nested, via } => {
            let input = (x, call, nested);
            let (v, n) = match via % 5 {
                0 => with_fun!(f, s, _e, syscall(w, input, s)),
                1 => with_fun!(f, s, _e, w.syscall(input, s)),
                2 => with_fun!(f, s, _e, syscall_with_validation(w, input, s, note_validation)),
                3 => with_fun!(f, s, _e, w.syscall_with_validation(input, s, note_validation)),
                // (`prep_fncall` needs `I: Clone`, which `In<T>` is not in Bevy 0.15: only input-less systems can use it)
                _ => with_fun!(f, s, _e, syscall(w, input, s)),
            };
            ret(&log, call, Outc::Ok(v, n));
        }
        Op::SyscallOnce { f, x, nested, via } => {
            let input = (x, call, nested);
            let (v, n) = if via % 2 == 0 {
                with_fun!(f, s, _e, w.syscall_once(input, s))
            } else {
                with_fun!(f, s, _e, w.syscall_once_with_validation(input, s, note_validation))
            };
            ret(&log, call, Outc::Ok(v, n));
        }
        Op::CmdSyscall { f, x, nested, via } => {
            // only ordinary unit systems have a `Commands` form here
            let i = match f {
                Fun::Ord(i) | Fun::Excl(i) => i,
            };
            macro_rules! unit_fun {
                ($i:expr, $s:ident, $body:expr) => {
                    match $i {
                        0 => {
                            let $s = ord_sys_unit::<0>;
                            $body
                        }
                        1 => {
                            let $s = ord_sys_unit::<1>;
                            $body
                        }
                        _ => {
                            let $s = ord_sys_unit::<2>;
                            $body
                        }
                    }
                };
            }
            if via % 9 == 8 {
                // the same unit function called directly: shares the type-keyed state with the `Commands` forms
                let input = (x, call, nested);
                match i {
                    0 => w.syscall(input, ord_sys_unit::<0>),
                    1 => w.syscall(input, ord_sys_unit::<1>),
                    _ => w.syscall(input, ord_sys_unit::<2>),
                }
                ret(&log, call, Outc::Queued);
                return;
            }
            w.syscall_once((x, call, nested), move |In(input): In<Input>, mut c: Commands| match via % 9 {
                0 => unit_fun!(i, s, c.syscall(input, s)),
                1 => unit_fun!(i, s, c.syscall_with_validation(input, s, note_validation)),
                2 => unit_fun!(i, s, c.syscall_once(input, s)),
                3 => unit_fun!(i, s, c.syscall_once_with_validation(input, s, note_validation)),
                // the `EntityCommands` forms of the same four
                k => {
                    let e = c.spawn_empty().id();
                    match k {
                        4 => unit_fun!(i, s, c.entity(e).syscall(input, s)),
                        5 => unit_fun!(i, s, c.entity(e).syscall_with_validation(input, s, note_validation)),
                        6 => unit_fun!(i, s, c.entity(e).syscall_once(input, s)),
                        _ => unit_fun!(i, s, c.entity(e).syscall_once_with_validation(input, s, note_validation)),
                    }
                }
            });
            ret(&log, call, Outc::Queued);
        }
        Op::Named { name, f, x, nested } => {
            let (v, n) = with_fun!(f, s, _e, named_syscall(w, name, (x, call, nested), s));
            ret(&log, call, Outc::Ok(v, n));
        }
        Op::NamedDirect { name, f, x, nested } => {
            let r = with_fun!(f, s, _e, {
                let sn = sysname(&s, name);
                named_syscall_direct::<In<Input>, (u32, u32)>(w, sn, (x, call, nested))
            });
            ret(&log, call, r.map(|(v, n)| Outc::Ok(v, n)).unwrap_or(Outc::Err));
        }
        Op::RegisterNamed { name, f } => {
            with_fun!(f, s, _e, {
                let sn = sysname(&s, name);
                register_named_system(w, sn, s)
            });
            ret(&log, call, Outc::Done);
        }
        Op::RevokeNamed { name, f, via } => {
            with_fun!(f, s, _e, revoke_named(w, &s, name, via));
            ret(&log, call, Outc::Done);
        }
        Op::Spawn { slot, f, via } => {
            let sl = slot as usize % NS as usize;
            let mut signal = None;
            let id = match via % 5 {
                0 => with_fun!(f, s, _e, spawn_system(w, s)),
                1 => with_fun!(f, s, _e, w.syscall_once((), move |mut c: Commands| c.spawn_system(s))),
                2 => {
                    let e = w.spawn_empty().id();
                    let r = with_fun!(f, s, _e, w.syscall_once(e, move |In(e): In<Entity>, mut c: Commands| c.insert_system(e, s)));
                    assert!(r.is_ok(), "insert_system on a fresh entity failed");
                    SysId::new(e)
                }
                3 => {
                    let sig = with_fun!(f, s, _e, spawn_rc_system(w, s));
                    let id = SysId::new(sig.entity());
                    signal = Some(sig);
                    id
                }
                _ => {
                    let i = match f {
                        Fun::Ord(i) | Fun::Excl(i) => i,
                    };
                    match i {
                        0 => spawn_system(w, ord_sys_unit::<0>),
                        1 => spawn_system(w, ord_sys_unit::<1>),
                        _ => spawn_system(w, ord_sys_unit::<2>),
                    }
                }
            };
            {
                let mut g = lk(&log.0);
                g.ids[sl] = Some(id);
                // a signal of the previous occupant is released here (its entity goes at the next collection)
                g.signals[sl] = signal;
            }
            ret(&log, call, Outc::Done);
        }
        Op::Spawned { slot, x, nested } => {
            let id = lk(&log.0).ids[slot as usize % NS as usize];
            let r = match id {
                Some(id) => spawned_syscall::<In<Input>, (u32, u32)>(w, id, (x, call, nested)),
                None => spawned_syscall::<In<Input>, (u32, u32)>(w, SysId::new(Entity::from_raw(999_999)), (x, call, nested)),
            };
            ret(&log, call, r.map(|(v, n)| Outc::Ok(v, n)).unwrap_or(Outc::Err));
        }
        Op::CmdSpawned { slot, x, nested } => {
            // The `Commands` form requires a unit system; the spawned systems here return values, so the call must
            // fail without running anything (the component type differs).
            let id = lk(&log.0).ids[slot as usize % NS as usize].unwrap_or(SysId::new(Entity::from_raw(999_999)));
            w.syscall_once((x, call, nested), move |In(input): In<Input>, mut c: Commands| {
                c.spawned_syscall::<In<Input>>(id, input);
            });
            ret(&log, call, Outc::Queued);
        }
        Op::DespawnSpawned { slot } => {
            let (id, sig) = {
                let mut g = lk(&log.0);
                let sl = slot as usize % NS as usize;
                (g.ids[sl], g.signals[sl].take())
            };
            if let Some(sig) = sig {
                // ref-counted system: dropping the last signal and collecting is what despawns it
                drop(sig);
                garbage_collect_entities(w);
            } else if let Some(id) = id {
                if let Ok(e) = w.get_entity_mut(id.entity()) {
                    e.despawn();
                }
            }
            ret(&log, call, Outc::Done);
        }
    }
}

//-------------------------------------------------------------------------------------------------------------------
// Model

#[derive(Clone, Debug, PartialEq, Eq, Hash, PartialOrd, Ord)]
enum Key {
    Sys(Fun),
    SysUnit(u8),
    Named(u8, Fun),
}



//-------------------------------------------------------------------------------------------------------------------
// Generation

fn gen_fun(r: &mut Rng) -> Fun {
    if r.chance(35) {
        Fun::Excl(r.below(NF as usize) as u8)
    } else {
        Fun::Ord(r.below(NF as usize) as u8)
    }
}

fn gen_op(r: &mut Rng, depth: u32, max_depth: u32) -> Op {
    let nested = if depth < max_depth && r.chance(30) { (0..r.range(1, 3)).map(|_| gen_op(r, depth + 1, max_depth)).collect() } else { vec![] };
    let x = r.below(50) as u32;
    match r.below(21) {
        0..=4 => Op::Syscall { f: gen_fun(r), x, nested, via: r.below(5) as u8 },
        5 => Op::SyscallOnce { f: gen_fun(r), x, nested, via: r.below(2) as u8 },
        6..=7 => Op::CmdSyscall { f: gen_fun(r), x, nested, via: r.below(9) as u8 },
        8..=9 => Op::Named { name: r.below(NN as usize) as u8, f: gen_fun(r), x, nested },
        10..=11 => Op::NamedDirect { name: r.below(NN as usize) as u8, f: gen_fun(r), x, nested },
        12 => {
            if r.chance(50) {
                Op::RegisterNamed { name: r.below(NN as usize) as u8, f: gen_fun(r) }
            } else {
                Op::RevokeNamed { name: r.below(NN as usize) as u8, f: gen_fun(r), via: r.below(2) as u8 }
            }
        }
        13..=14 => Op::Spawn { slot: r.below(NS as usize) as u8, f: gen_fun(r), via: r.below(5) as u8 },
        15..=16 => Op::Spawned { slot: r.below(NS as usize) as u8, x, nested },
        17..=18 => Op::CmdSpawned { slot: r.below(NS as usize) as u8, x, nested },
        _ => Op::DespawnSpawned { slot: r.below(NS as usize) as u8 },
    }
}

pub fn gen_sequence(seed: u64, max_depth: u32) -> Vec<Op> {
    let mut r = Rng::new(seed ^ 0x5151_5151);
    let n = r.range(5, 40);
    (0..n).map(|_| gen_op(&mut r, 0, max_depth)).collect()
}

//-------------------------------------------------------------------------------------------------------------------
// Check

pub struct SeqResult {
    pub violations: Vec<(String, String)>,
    pub calls: u32,
    pub nested: u32,
    pub reentrant: u32,
    pub keys: usize,
    pub log: Vec<LogEv>,
    pub cmd_spawned_ran: u32,
    pub revocations: u32,
    pub validations: u32,
    pub spawn_forms: BTreeSet<u8>,
}

pub fn run_sequence(ops: &[Op]) -> SeqResult {
    // an `App` only because `setup_auto_despawn` (needed by `spawn_rc_system`) is an `App` extension
    let mut app = App::new();
    app.setup_auto_despawn();
    let log = Log(Arc::new(Mutex::new(LogState { evs: vec![], next_call: 0, ids: [None; NS as usize], signals: [None, None, None], validations: 0 })));
    app.world_mut().insert_resource(log.clone());
    exec_ops(app.world_mut(), ops);
    lk(&log.0).signals = [None, None, None];
    drop(app);
    let evs = lk(&log.0).evs.clone();
    let mut m = ModelFull::default();
    m.exec(ops, 0);
    let mut violations = vec![];
    // actual results and bodies
    let mut actual: BTreeMap<u32, Vec<Outc>> = BTreeMap::new();
    let mut bodies: BTreeMap<u32, Vec<(Fun, u32, u32)>> = BTreeMap::new();
    let mut marker_pos: BTreeMap<u32, usize> = BTreeMap::new();
    let mut return_pos: BTreeMap<u32, usize> = BTreeMap::new();
    for (i, e) in evs.iter().enumerate() {
        match e {
            LogEv::Return { call, res } => {
                actual.entry(*call).or_default().push(res.clone());
                // the last one: for the `Commands` forms the unit system logs its own result before the driver returns
                return_pos.insert(*call, i);
            }
            LogEv::Body { call, f, x, local } => bodies.entry(*call).or_default().push((*f, *x, *local)),
            LogEv::MarkerApplied(c) => {
                marker_pos.insert(*c, i);
            }
            _ => {}
        }
    }
    for (call, exp) in m.expect.iter() {
        let got = actual.get(call).cloned().unwrap_or_default();
        let mut want = vec![];
        if let Some(r) = m.unit_results.get(call) {
            want.push(r.clone());
        }
        want.push(exp.clone());
        if got != want {
            let what = match (exp, got.last()) {
                (Outc::Err, Some(Outc::Ok(..))) => "ok-instead-of-error",
                (Outc::Ok(..), Some(Outc::Err)) => "error-instead-of-ok",
                (Outc::Ok(v, _), Some(Outc::Ok(v2, _))) if v != v2 => "wrong-output",
                (Outc::Ok(..), Some(Outc::Ok(..))) => "wrong-state",
                _ => "result-mismatch",
            };
            violations.push((format!("C17/{what}"), format!("call {call}: expected {:?}, got {:?}", want, got)));
        }
        match (m.bodies.get(call), bodies.get(call)) {
            (Some((f, n)), Some(b)) => {
                if b.len() != 1 {
                    violations.push(("C17/ran-more-than-once".into(), format!("call {call} ran its system {} times", b.len())));
                } else if b[0].0 != *f || b[0].2 != *n {
                    violations.push((
                        "C17/wrong-system-or-state".into(),
                        format!("call {call}: body of {:?} with local {} ran, expected {:?} with local {}", b[0].0, b[0].2, f, n),
                    ));
                }
                // all commands queued by the call are applied before it returns
                match (marker_pos.get(call), return_pos.get(call)) {
                    (Some(mp), Some(rp)) if mp < rp => {}
                    (mp, rp) => violations.push((
                        "C17/commands-not-applied-on-return".into(),
                        format!("call {call}: marker command applied at {:?}, call returned at {:?}", mp, rp),
                    )),
                }
            }
            (None, Some(b)) => violations.push(("C17/ran-although-it-must-fail".into(), format!("call {call} ran {:?}", b))),
            (Some(_), None) => violations.push(("C17/did-not-run".into(), format!("call {call} did not run its system"))),
            (None, None) => {}
        }
    }
    let validations = lk(&log.0).validations;
    SeqResult {
        violations,
        calls: m.next_call,
        nested: m.nested_calls,
        reentrant: m.reentrant_calls,
        keys: m.keys_touched.len(),
        log: evs,
        cmd_spawned_ran: m.cmd_spawned_ran,
        revocations: m.revocations,
        validations,
        spawn_forms: m.spawn_forms,
    }
}

/// Model of a spawned system slot.
#[derive(Clone, Copy, Debug)]
struct Sp {
    f: Fun,
    n: u32,
    alive: bool,
    running: bool,
    /// spawned from the unit-returning variant: only `Commands::spawned_syscall` can run it
    unit: bool,
}

// The model struct with all fields (kept in one place so Default derives cleanly).
#[derive(Default)]
struct ModelFull {
    store: BTreeMap<Key, u32>,
    taken: Vec<Key>,
    spawned: [Option<Sp>; NS as usize],
    next_call: u32,
    expect: BTreeMap<u32, Outc>,
    unit_results: BTreeMap<u32, Outc>,
    bodies: BTreeMap<u32, (Fun, u32)>,
    keys_touched: BTreeSet<String>,
    nested_calls: u32,
    reentrant_calls: u32,
    spawn_gen: [u32; NS as usize],
    revocations: u32,
    cmd_spawned_ran: u32,
    spawn_forms: BTreeSet<u8>,
}

impl ModelFull {
    fn run_keyed(&mut self, key: Key, f: Fun, x: u32, nested: &[Op], call: u32, depth: u32) -> Outc {
        let prev = self.store.remove(&key);
        if prev.is_none() && self.taken.contains(&key) {
            self.reentrant_calls += 1;
        }
        let n = prev.unwrap_or(0) + 1;
        self.taken.push(key.clone());
        self.bodies.insert(call, (f, n));
        self.exec(nested, depth + 1);
        self.taken.pop();
        self.store.insert(key, n);
        Outc::Ok(expected_value(f, x), n)
    }
    fn exec(&mut self, ops: &[Op], depth: u32) {
        for op in ops {
            let call = self.next_call;
            self.next_call += 1;
            if depth > 0 {
                self.nested_calls += 1;
            }
            let res = match op {
                Op::Syscall { f, x, nested, .. } => {
                    self.keys_touched.insert(format!("syscall:{:?}", f));
                    self.run_keyed(Key::Sys(*f), *f, *x, nested, call, depth)
                }
                Op::SyscallOnce { f, x, nested, .. } => {
                    self.keys_touched.insert(format!("once:{:?}", f));
                    self.bodies.insert(call, (*f, 1));
                    self.exec(nested, depth + 1);
                    Outc::Ok(expected_value(*f, *x), 1)
                }
                Op::CmdSyscall { f, x, nested, via } => {
                    let i = match f {
                        Fun::Ord(i) | Fun::Excl(i) => *i,
                    };
                    let r = if matches!(via % 9, 2 | 3 | 6 | 7) {
                        // the `once` forms never cache the system
                        self.keys_touched.insert(format!("cmd-syscall-once:{i}"));
                        self.bodies.insert(call, (Fun::Ord(i), 1));
                        self.exec(nested, depth + 1);
                        Outc::Ok(expected_value(Fun::Ord(i), *x), 1)
                    } else {
                        self.keys_touched.insert(format!("cmd-syscall:{i}"));
                        self.run_keyed(Key::SysUnit(i), Fun::Ord(i), *x, nested, call, depth)
                    };
                    self.unit_results.insert(call, r);
                    Outc::Queued
                }
                Op::Named { name, f, x, nested } => {
                    self.keys_touched.insert(format!("named:{name}:{:?}", f));
                    self.run_keyed(Key::Named(*name, *f), *f, *x, nested, call, depth)
                }
                Op::NamedDirect { name, f, x, nested } => {
                    let key = Key::Named(*name, *f);
                    self.keys_touched.insert(format!("named-direct:{name}:{:?}", f));
                    if self.store.contains_key(&key) {
                        self.run_keyed(key, *f, *x, nested, call, depth)
                    } else {
                        Outc::Err
                    }
                }
                Op::RegisterNamed { name, f } => {
                    self.store.insert(Key::Named(*name, *f), 0);
                    Outc::Done
                }
                Op::RevokeNamed { name, f, .. } => {
                    // forgets the stored system; one that is running at the moment is put back when it returns
                    self.store.remove(&Key::Named(*name, *f));
                    self.revocations += 1;
                    Outc::Done
                }
                Op::Spawn { slot, f, via } => {
                    let unit = via % 5 == 4;
                    let f = if unit {
                        match f {
                            Fun::Ord(i) | Fun::Excl(i) => Fun::Ord(*i),
                        }
                    } else {
                        *f
                    };
                    self.spawned[*slot as usize % NS as usize] = Some(Sp { f, n: 0, alive: true, running: false, unit });
                    self.spawn_gen[*slot as usize % NS as usize] += 1;
                    self.spawn_forms.insert(via % 5);
                    Outc::Done
                }
                Op::Spawned { slot, x, nested } => {
                    let s = *slot as usize % NS as usize;
                    self.keys_touched.insert(format!("spawned:{s}"));
                    match self.spawned[s] {
                        Some(Sp { f, n, alive: true, running: false, unit: false }) => {
                            self.spawned[s] = Some(Sp { f, n, alive: true, running: true, unit: false });
                            self.bodies.insert(call, (f, n + 1));
                            let gen_before = self.spawn_gen[s];
                            self.exec(nested, depth + 1);
                            // reinserted only if the same entity still exists
                            if self.spawn_gen[s] == gen_before {
                                if let Some(sp) = self.spawned[s] {
                                    self.spawned[s] = Some(Sp { f, n: n + 1, alive: sp.alive, running: false, unit: false });
                                }
                            }
                            Outc::Ok(expected_value(f, *x), n + 1)
                        }
                        Some(Sp { alive: true, running: true, unit: false, .. }) => {
                            self.reentrant_calls += 1;
                            Outc::Err
                        }
                        _ => Outc::Err,
                    }
                }
                Op::CmdSpawned { slot, x, nested } => {
                    // the `Commands` form calls with output type `()`: it only finds systems spawned from the unit variant
                    let s = *slot as usize % NS as usize;
                    if let Some(Sp { f, n, alive: true, running: false, unit: true }) = self.spawned[s] {
                        self.keys_touched.insert(format!("cmd-spawned:{s}"));
                        self.spawned[s] = Some(Sp { f, n, alive: true, running: true, unit: true });
                        self.bodies.insert(call, (f, n + 1));
                        let gen_before = self.spawn_gen[s];
                        self.exec(nested, depth + 1);
                        if self.spawn_gen[s] == gen_before {
                            if let Some(sp) = self.spawned[s] {
                                self.spawned[s] = Some(Sp { f, n: n + 1, alive: sp.alive, running: false, unit: true });
                            }
                        }
                        self.unit_results.insert(call, Outc::Ok(expected_value(f, *x), n + 1));
                        self.cmd_spawned_ran += 1;
                    } else if matches!(self.spawned[s], Some(Sp { alive: true, running: true, unit: true, .. })) {
                        self.reentrant_calls += 1;
                    }
                    Outc::Queued
                }
                Op::DespawnSpawned { slot } => {
                    let s = *slot as usize % NS as usize;
                    if let Some(sp) = self.spawned[s] {
                        self.spawned[s] = Some(Sp { alive: false, ..sp });
                    }
                    Outc::Done
                }
            };
            self.expect.insert(call, res);
        }
    }
}

pub struct SyscConfig {
    pub tier: String,
    pub seed: u64,
    pub out: String,
    pub replay_dir: String,
    pub sequences: usize,
    pub no_floor: bool,
}

#[derive(Serialize, Deserialize)]
pub struct SyscReplay {
    pub property: String,
    pub signature: String,
    pub message: String,
    pub ops: Vec<Op>,
}

pub fn run_check(cfg: &SyscConfig) -> (usize, Option<String>) {
    let t0 = Instant::now();
    let max_depth = if cfg.tier == "thorough" { 3 } else { 2 };
    let mut evaluations = 0usize;
    let mut calls = 0u64;
    let mut nested = 0u64;
    let mut reentrant = 0u64;
    let mut cmd_spawned_ran = 0u64;
    let mut revocations = 0u64;
    let mut validations = 0u64;
    let mut spawn_forms: BTreeMap<u8, u64> = BTreeMap::new();
    let mut nontrivial = 0usize;
    let mut shapes: BTreeSet<u64> = BTreeSet::new();
    let mut sigs: BTreeMap<String, (usize, Vec<Op>, String)> = BTreeMap::new();
    let mut samples = vec![];
    let mut harness_errors = vec![];
    for k in 0..cfg.sequences {
        let ops = gen_sequence(cfg.seed.wrapping_mul(7919).wrapping_add(k as u64), max_depth);
        let r = std::panic::catch_unwind(std::panic::AssertUnwindSafe(|| run_sequence(&ops)));
        let r = match r {
            Ok(r) => r,
            Err(p) => {
                let msg = p.downcast_ref::<String>().cloned().or_else(|| p.downcast_ref::<&str>().map(|s| s.to_string())).unwrap_or_default();
                // a panic of the code under test is a violation; a panic of the harness would show up on every tree
                sigs.entry("C17/panic".into()).or_insert((0, ops.clone(), msg)).0 += 1;
                if harness_errors.len() < 3 {
                    harness_errors.push(k);
                }
                continue;
            }
        };
        evaluations += 1;
        calls += r.calls as u64;
        nested += r.nested as u64;
        reentrant += r.reentrant as u64;
        cmd_spawned_ran += r.cmd_spawned_ran as u64;
        revocations += r.revocations as u64;
        validations += r.validations as u64;
        for f in r.spawn_forms.iter() {
            *spawn_forms.entry(*f).or_insert(0) += 1;
        }
        if r.keys >= 2 && r.nested >= 1 {
            nontrivial += 1;
            let mut h = 0xcbf29ce484222325u64;
            for e in r.log.iter() {
                let tag = match e {
                    LogEv::Call(_) => 1u64,
                    LogEv::Body { f, local, .. } => 2 + (*local as u64) * 31 + format!("{:?}", f).len() as u64 * 7 + match f { Fun::Ord(i) => *i as u64, Fun::Excl(i) => 10 + *i as u64 },
                    LogEv::MarkerApplied(_) => 3,
                    LogEv::Return { res, .. } => match res {
                        Outc::Ok(..) => 4,
                        Outc::Err => 5,
                        Outc::Done => 6,
                        Outc::Queued => 7,
                    },
                };
                h ^= tag;
                h = h.wrapping_mul(0x100000001b3);
            }
            shapes.insert(h);
            if samples.len() < 2 {
                samples.push(json!({"ops": ops, "log": r.log.iter().take(40).collect::<Vec<_>>()}));
            }
        }
        for (sig, msg) in r.violations {
            sigs.entry(sig).or_insert((0, ops.clone(), msg)).0 += 1;
        }
    }
    let _ = std::fs::create_dir_all(&cfg.replay_dir);
    let mut total = 0;
    let mut records = vec![];
    for (n, (sig, (count, ops, msg))) in sigs.iter().enumerate() {
        total += count;
        // shrink: drop top-level ops while the signature persists
        let mut cur = ops.clone();
        let mut i = cur.len();
        while i > 0 {
            i -= 1;
            let mut c = cur.clone();
            c.remove(i);
            let still = std::panic::catch_unwind(std::panic::AssertUnwindSafe(|| run_sequence(&c)))
                .map(|r| r.violations.iter().any(|v| &v.0 == sig))
                .unwrap_or(sig == "C17/panic");
            if still {
                cur = c;
            }
        }
        let path = format!("{}/C17-{}-{}.json", cfg.replay_dir, cfg.seed, n);
        let _ = std::fs::write(&path, serde_json::to_string_pretty(&SyscReplay { property: "C17".into(), signature: sig.clone(), message: msg.clone(), ops: cur }).unwrap());
        println!("VIOLATION property=C17 replay={}", path);
        println!("  signature={} count={}: {}", sig, count, msg);
        records.push(json!({"signature": sig, "count": count, "message": msg, "replay": path}));
    }
    let inconclusive = if !cfg.no_floor && shapes.len() < 20 { Some(format!("coverage floor not met: {} distinct non-trivial sequences", shapes.len())) } else { None };
    let ev = json!({
        "property_id": "C17",
        "tier": cfg.tier,
        "seed": cfg.seed,
        "level": "exploration",
        "coverage": {
            "evaluations": evaluations,
            "distinct_nontrivial": shapes.len(),
            "rule": "seeded random call sequences (5-40 top-level calls, nesting depth <=2 quick / <=3 thorough) over syscall / World::syscall / *_with_validation, World::syscall_once(_with_validation), the Commands and EntityCommands forms of all of these, named_syscall, named_syscall_direct, register_named_system, IdMappedSystems::revoke / revoke_sysname, spawn_system / Commands::spawn_system / Commands::insert_system / spawn_rc_system (released through its AutoDespawnSignal + garbage collection), spawned_syscall, Commands::spawned_syscall (on value-returning systems, which it must not find, and on unit systems, which it runs) and despawning of spawned systems, with 6 function types (3 ordinary, 3 exclusive), 3 names, 3 spawned slots; nested calls are made from inside exclusive systems and from commands queued by ordinary systems; non-trivial = sequence that touches >=2 keys and contains >=1 nested call; distinct = distinct logs (call/body/marker/return kinds and local counters in order)",
            "samples": samples,
            "calls_checked": calls,
            "nested_calls": nested,
            "reentrant_same_key_calls": reentrant,
            "sequences_nontrivial": nontrivial,
            "commands_spawned_syscalls_that_ran_a_unit_system": cmd_spawned_ran,
            "named_system_revocations": revocations,
            "validation_callbacks_observed": validations,
            "sequences_per_spawn_form (0 spawn_system, 1 Commands::spawn_system, 2 Commands::insert_system, 3 spawn_rc_system, 4 unit system)": spawn_forms,
        },
        "assumptions": ["the documented recursion caveat of syscall/named_syscall (a re-entrant call sees fresh state that is discarded) is modelled as documented"],
        "wall_s": t0.elapsed().as_secs_f64(),
        "violations": total,
        "violation_signatures": records,
        "inconclusive": inconclusive,
    });
    if let Some(dir) = std::path::Path::new(&cfg.out).parent() {
        let _ = std::fs::create_dir_all(dir);
    }
    let _ = std::fs::write(&cfg.out, serde_json::to_string_pretty(&ev).unwrap());
    println!(
        "C17 {}: {} sequences, {} calls ({} nested, {} re-entrant on a busy key), {} distinct non-trivial logs, {:.1}s; violations: {}",
        cfg.tier,
        evaluations,
        calls,
        nested,
        reentrant,
        shapes.len(),
        t0.elapsed().as_secs_f64(),
        total
    );
    if let Some(m) = &inconclusive {
        println!("INCONCLUSIVE: {m}");
    }
    (total, inconclusive)
}

pub fn replay(path: &str) -> bool {
    let s = std::fs::read_to_string(path).expect("cannot read replay file");
    let rf: SyscReplay = serde_json::from_str(&s).expect("malformed replay file");
    let r = run_sequence(&rf.ops);
    for e in r.log.iter() {
        println!("{:?}", e);
    }
    for v in r.violations.iter() {
        println!("{}: {}", v.0, v.1);
    }
    r.violations.iter().any(|v| v.0 == rf.signature)
}
