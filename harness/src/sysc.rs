//! C17 engine: random call sequences over the syscall family, checked against a small keyed-state model.

use bevy::prelude::*;
use bevy_cobweb::prelude::*;
use serde::{Deserialize, Serialize};
use serde_json::json;
use std::collections::{BTreeMap, BTreeSet};
use std::sync::{Arc, Mutex};
use std::time::Instant;

use crate::program::Rng;
use crate::types::lk;

pub const NF: u8 = 3; // function types
pub const NN: u8 = 3; // names
pub const NS: u8 = 3; // spawned slots

/// Which function: `Ord(i)` ordinary system (nested ops run from a queued command), `Excl(i)` exclusive system
/// (nested ops run from inside the body).
#[derive(Clone, Copy, Debug, PartialEq, Eq, Hash, PartialOrd, Ord, Serialize, Deserialize)]
pub enum Fun {
    Ord(u8),
    Excl(u8),
}

#[derive(Clone, Debug, PartialEq, Eq, Serialize, Deserialize)]
pub enum Op {
    Syscall { f: Fun, x: u32, nested: Vec<Op> },
    SyscallOnce { f: Fun, x: u32, nested: Vec<Op> },
    /// `Commands::syscall` issued from a one-shot driver system.
    CmdSyscall { f: Fun, x: u32, nested: Vec<Op> },
    Named { name: u8, f: Fun, x: u32, nested: Vec<Op> },
    NamedDirect { name: u8, f: Fun, x: u32, nested: Vec<Op> },
    RegisterNamed { name: u8, f: Fun },
    Spawn { slot: u8, f: Fun },
    Spawned { slot: u8, x: u32, nested: Vec<Op> },
    CmdSpawned { slot: u8, x: u32, nested: Vec<Op> },
    DespawnSpawned { slot: u8 },
}

#[derive(Clone, Debug, PartialEq, Eq, Serialize)]
pub enum Outc {
    /// (f(x), local counter)
    Ok(u32, u32),
    Err,
    /// operation without a result (register / spawn / despawn)
    Done,
    /// command forms: the called system logs its result itself
    Queued,
}

#[derive(Clone, Debug, PartialEq, Eq, Serialize)]
pub enum LogEv {
    Call(u32),
    Body { call: u32, f: Fun, x: u32, local: u32 },
    MarkerApplied(u32),
    Return { call: u32, res: Outc },
}

#[derive(Resource, Clone)]
struct Log(Arc<Mutex<LogState>>);

struct LogState {
    evs: Vec<LogEv>,
    next_call: u32,
    ids: [Option<SysId>; NS as usize],
}

type Input = (u32, u32, Vec<Op>); // (x, call id, nested)

fn konst(i: u8) -> u32 {
    100 * (i as u32 + 1)
}

fn ord_sys<const I: u8>(In((x, call, nested)): In<Input>, mut l: Local<u32>, mut c: Commands, log: bevy::prelude::Res<Log>) -> (u32, u32) {
    *l += 1;
    lk(&log.0).evs.push(LogEv::Body { call, f: Fun::Ord(I), x, local: *l });
    let lg = log.clone();
    c.queue(move |w: &mut World| {
        lk(&lg.0).evs.push(LogEv::MarkerApplied(call));
        exec_ops(w, &nested);
    });
    (x + konst(I), *l)
}

fn excl_sys<const I: u8>(In((x, call, nested)): In<Input>, world: &mut World, mut l: Local<u32>) -> (u32, u32) {
    *l += 1;
    let log = world.resource::<Log>().clone();
    lk(&log.0).evs.push(LogEv::Body { call, f: Fun::Excl(I), x, local: *l });
    world.commands().queue(move |w: &mut World| {
        let lg = w.resource::<Log>().clone();
        lk(&lg.0).evs.push(LogEv::MarkerApplied(call));
    });
    exec_ops(world, &nested);
    (x + 7 * konst(I), *l)
}

/// Unit-returning variants for the `Commands` forms (the result is logged by the system itself).
fn ord_sys_unit<const I: u8>(In(input): In<Input>, l: Local<u32>, c: Commands, log: bevy::prelude::Res<Log>) {
    let call = input.1;
    let lg = log.clone();
    let (v, n) = ord_sys::<I>(In(input), l, c, log);
    lk(&lg.0).evs.push(LogEv::Return { call, res: Outc::Ok(v, n) });
}

fn expected_value(f: Fun, x: u32) -> u32 {
    match f {
        Fun::Ord(i) => x + konst(i),
        Fun::Excl(i) => x + 7 * konst(i),
    }
}

macro_rules! with_fun {
    ($f:expr, $ord:ident, $excl:ident, $body:expr) => {
        match $f {
            Fun::Ord(0) => {
                let $ord = ord_sys::<0>;
                $body
            }
            Fun::Ord(1) => {
                let $ord = ord_sys::<1>;
                $body
            }
            Fun::Ord(_) => {
                let $ord = ord_sys::<2>;
                $body
            }
            Fun::Excl(0) => {
                let $ord = excl_sys::<0>;
                $body
            }
            Fun::Excl(1) => {
                let $ord = excl_sys::<1>;
                $body
            }
            Fun::Excl(_) => {
                let $ord = excl_sys::<2>;
                $body
            }
        }
    };
}

fn sysname<S: 'static>(_: &S, name: u8) -> SysName {
    SysName::new::<S>(name)
}

fn new_call(w: &World) -> (Log, u32) {
    let log = w.resource::<Log>().clone();
    let call = {
        let mut g = lk(&log.0);
        let c = g.next_call;
        g.next_call += 1;
        g.evs.push(LogEv::Call(c));
        c
    };
    (log, call)
}

fn ret(log: &Log, call: u32, res: Outc) {
    lk(&log.0).evs.push(LogEv::Return { call, res });
}

pub fn exec_ops(w: &mut World, ops: &[Op]) {
    for op in ops {
        exec_op(w, op);
    }
}

fn exec_op(w: &mut World, op: &Op) {
    let (log, call) = new_call(w);
    match op.clone() {
        Op::Syscall { f, x, nested } => {
            let (v, n) = with_fun!(f, s, _e, syscall(w, (x, call, nested), s));
            ret(&log, call, Outc::Ok(v, n));
        }
        Op::SyscallOnce { f, x, nested } => {
            let (v, n) = with_fun!(f, s, _e, w.syscall_once((x, call, nested), s));
            ret(&log, call, Outc::Ok(v, n));
        }
        Op::CmdSyscall { f, x, nested } => {
            // only ordinary unit systems have a `Commands` form here
            let i = match f {
                Fun::Ord(i) | Fun::Excl(i) => i,
            };
            w.syscall_once((x, call, nested), move |In(input): In<Input>, mut c: Commands| match i {
                0 => c.syscall(input, ord_sys_unit::<0>),
                1 => c.syscall(input, ord_sys_unit::<1>),
                _ => c.syscall(input, ord_sys_unit::<2>),
            });
            ret(&log, call, Outc::Queued);
        }
        Op::Named { name, f, x, nested } => {
            let (v, n) = with_fun!(f, s, _e, named_syscall(w, name, (x, call, nested), s));
            ret(&log, call, Outc::Ok(v, n));
        }
        Op::NamedDirect { name, f, x, nested } => {
            let r = with_fun!(f, s, _e, {
                let sn = sysname(&s, name);
                named_syscall_direct::<In<Input>, (u32, u32)>(w, sn, (x, call, nested))
            });
            ret(&log, call, r.map(|(v, n)| Outc::Ok(v, n)).unwrap_or(Outc::Err));
        }
        Op::RegisterNamed { name, f } => {
            with_fun!(f, s, _e, {
                let sn = sysname(&s, name);
                register_named_system(w, sn, s)
            });
            ret(&log, call, Outc::Done);
        }
        Op::Spawn { slot, f } => {
            let id = with_fun!(f, s, _e, spawn_system(w, s));
            lk(&log.0).ids[slot as usize % NS as usize] = Some(id);
            ret(&log, call, Outc::Done);
        }
        Op::Spawned { slot, x, nested } => {
            let id = lk(&log.0).ids[slot as usize % NS as usize];
            let r = match id {
                Some(id) => spawned_syscall::<In<Input>, (u32, u32)>(w, id, (x, call, nested)),
                None => spawned_syscall::<In<Input>, (u32, u32)>(w, SysId::new(Entity::from_raw(999_999)), (x, call, nested)),
            };
            ret(&log, call, r.map(|(v, n)| Outc::Ok(v, n)).unwrap_or(Outc::Err));
        }
        Op::CmdSpawned { slot, x, nested } => {
            // The `Commands` form requires a unit system; the spawned systems here return values, so the call must
            // fail without running anything (the component type differs).
            let id = lk(&log.0).ids[slot as usize % NS as usize].unwrap_or(SysId::new(Entity::from_raw(999_999)));
            w.syscall_once((x, call, nested), move |In(input): In<Input>, mut c: Commands| {
                c.spawned_syscall::<In<Input>>(id, input);
            });
            ret(&log, call, Outc::Queued);
        }
        Op::DespawnSpawned { slot } => {
            let id = lk(&log.0).ids[slot as usize % NS as usize];
            if let Some(id) = id {
                if let Ok(e) = w.get_entity_mut(id.entity()) {
                    e.despawn();
                }
            }
            ret(&log, call, Outc::Done);
        }
    }
}

//-------------------------------------------------------------------------------------------------------------------
// Model

#[derive(Clone, Debug, PartialEq, Eq, Hash, PartialOrd, Ord)]
enum Key {
    Sys(Fun),
    SysUnit(u8),
    Named(u8, Fun),
}



//-------------------------------------------------------------------------------------------------------------------
// Generation

fn gen_fun(r: &mut Rng) -> Fun {
    if r.chance(35) {
        Fun::Excl(r.below(NF as usize) as u8)
    } else {
        Fun::Ord(r.below(NF as usize) as u8)
    }
}

fn gen_op(r: &mut Rng, depth: u32, max_depth: u32) -> Op {
    let nested = if depth < max_depth && r.chance(30) { (0..r.range(1, 3)).map(|_| gen_op(r, depth + 1, max_depth)).collect() } else { vec![] };
    let x = r.below(50) as u32;
    match r.below(20) {
        0..=4 => Op::Syscall { f: gen_fun(r), x, nested },
        5 => Op::SyscallOnce { f: gen_fun(r), x, nested },
        6 => Op::CmdSyscall { f: gen_fun(r), x, nested },
        7..=9 => Op::Named { name: r.below(NN as usize) as u8, f: gen_fun(r), x, nested },
        10..=11 => Op::NamedDirect { name: r.below(NN as usize) as u8, f: gen_fun(r), x, nested },
        12 => Op::RegisterNamed { name: r.below(NN as usize) as u8, f: gen_fun(r) },
        13..=14 => Op::Spawn { slot: r.below(NS as usize) as u8, f: gen_fun(r) },
        15..=17 => Op::Spawned { slot: r.below(NS as usize) as u8, x, nested },
        18 => Op::CmdSpawned { slot: r.below(NS as usize) as u8, x, nested: vec![] },
        _ => Op::DespawnSpawned { slot: r.below(NS as usize) as u8 },
    }
}

pub fn gen_sequence(seed: u64, max_depth: u32) -> Vec<Op> {
    let mut r = Rng::new(seed ^ 0x5151_5151);
    let n = r.range(5, 40);
    (0..n).map(|_| gen_op(&mut r, 0, max_depth)).collect()
}

//-------------------------------------------------------------------------------------------------------------------
// Check

pub struct SeqResult {
    pub violations: Vec<(String, String)>,
    pub calls: u32,
    pub nested: u32,
    pub reentrant: u32,
    pub keys: usize,
    pub log: Vec<LogEv>,
}

pub fn run_sequence(ops: &[Op]) -> SeqResult {
    let mut world = World::new();
    let log = Log(Arc::new(Mutex::new(LogState { evs: vec![], next_call: 0, ids: [None; NS as usize] })));
    world.insert_resource(log.clone());
    exec_ops(&mut world, ops);
    let evs = lk(&log.0).evs.clone();
    let mut m = ModelFull::default();
    m.exec(ops, 0);
    let mut violations = vec![];
    // actual results and bodies
    let mut actual: BTreeMap<u32, Vec<Outc>> = BTreeMap::new();
    let mut bodies: BTreeMap<u32, Vec<(Fun, u32, u32)>> = BTreeMap::new();
    let mut marker_pos: BTreeMap<u32, usize> = BTreeMap::new();
    let mut return_pos: BTreeMap<u32, usize> = BTreeMap::new();
    for (i, e) in evs.iter().enumerate() {
        match e {
            LogEv::Return { call, res } => {
                actual.entry(*call).or_default().push(res.clone());
                // the last one: for the `Commands` forms the unit system logs its own result before the driver returns
                return_pos.insert(*call, i);
            }
            LogEv::Body { call, f, x, local } => bodies.entry(*call).or_default().push((*f, *x, *local)),
            LogEv::MarkerApplied(c) => {
                marker_pos.insert(*c, i);
            }
            _ => {}
        }
    }
    for (call, exp) in m.expect.iter() {
        let got = actual.get(call).cloned().unwrap_or_default();
        let mut want = vec![];
        if let Some(r) = m.unit_results.get(call) {
            want.push(r.clone());
        }
        want.push(exp.clone());
        if got != want {
            let what = match (exp, got.last()) {
                (Outc::Err, Some(Outc::Ok(..))) => "ok-instead-of-error",
                (Outc::Ok(..), Some(Outc::Err)) => "error-instead-of-ok",
                (Outc::Ok(v, _), Some(Outc::Ok(v2, _))) if v != v2 => "wrong-output",
                (Outc::Ok(..), Some(Outc::Ok(..))) => "wrong-state",
                _ => "result-mismatch",
            };
            violations.push((format!("C17/{what}"), format!("call {call}: expected {:?}, got {:?}", want, got)));
        }
        match (m.bodies.get(call), bodies.get(call)) {
            (Some((f, n)), Some(b)) => {
                if b.len() != 1 {
                    violations.push(("C17/ran-more-than-once".into(), format!("call {call} ran its system {} times", b.len())));
                } else if b[0].0 != *f || b[0].2 != *n {
                    violations.push((
                        "C17/wrong-system-or-state".into(),
                        format!("call {call}: body of {:?} with local {} ran, expected {:?} with local {}", b[0].0, b[0].2, f, n),
                    ));
                }
                // all commands queued by the call are applied before it returns
                match (marker_pos.get(call), return_pos.get(call)) {
                    (Some(mp), Some(rp)) if mp < rp => {}
                    (mp, rp) => violations.push((
                        "C17/commands-not-applied-on-return".into(),
                        format!("call {call}: marker command applied at {:?}, call returned at {:?}", mp, rp),
                    )),
                }
            }
            (None, Some(b)) => violations.push(("C17/ran-although-it-must-fail".into(), format!("call {call} ran {:?}", b))),
            (Some(_), None) => violations.push(("C17/did-not-run".into(), format!("call {call} did not run its system"))),
            (None, None) => {}
        }
    }
    SeqResult { violations, calls: m.next_call, nested: m.nested_calls, reentrant: m.reentrant_calls, keys: m.keys_touched.len(), log: evs }
}

// The model struct with all fields (kept in one place so Default derives cleanly).
#[derive(Default)]
struct ModelFull {
    store: BTreeMap<Key, u32>,
    taken: Vec<Key>,
    spawned: [Option<(Fun, u32, bool, bool)>; NS as usize],
    next_call: u32,
    expect: BTreeMap<u32, Outc>,
    unit_results: BTreeMap<u32, Outc>,
    bodies: BTreeMap<u32, (Fun, u32)>,
    keys_touched: BTreeSet<String>,
    nested_calls: u32,
    reentrant_calls: u32,
    spawn_gen: [u32; NS as usize],
}

impl ModelFull {
    fn run_keyed(&mut self, key: Key, f: Fun, x: u32, nested: &[Op], call: u32, depth: u32) -> Outc {
        let prev = self.store.remove(&key);
        if prev.is_none() && self.taken.contains(&key) {
            self.reentrant_calls += 1;
        }
        let n = prev.unwrap_or(0) + 1;
        self.taken.push(key.clone());
        self.bodies.insert(call, (f, n));
        self.exec(nested, depth + 1);
        self.taken.pop();
        self.store.insert(key, n);
        Outc::Ok(expected_value(f, x), n)
    }
    fn exec(&mut self, ops: &[Op], depth: u32) {
        for op in ops {
            let call = self.next_call;
            self.next_call += 1;
            if depth > 0 {
                self.nested_calls += 1;
            }
            let res = match op {
                Op::Syscall { f, x, nested } => {
                    self.keys_touched.insert(format!("syscall:{:?}", f));
                    self.run_keyed(Key::Sys(*f), *f, *x, nested, call, depth)
                }
                Op::SyscallOnce { f, x, nested } => {
                    self.keys_touched.insert(format!("once:{:?}", f));
                    self.bodies.insert(call, (*f, 1));
                    self.exec(nested, depth + 1);
                    Outc::Ok(expected_value(*f, *x), 1)
                }
                Op::CmdSyscall { f, x, nested } => {
                    let i = match f {
                        Fun::Ord(i) | Fun::Excl(i) => *i,
                    };
                    self.keys_touched.insert(format!("cmd-syscall:{i}"));
                    let r = self.run_keyed(Key::SysUnit(i), Fun::Ord(i), *x, nested, call, depth);
                    self.unit_results.insert(call, r);
                    Outc::Queued
                }
                Op::Named { name, f, x, nested } => {
                    self.keys_touched.insert(format!("named:{name}:{:?}", f));
                    self.run_keyed(Key::Named(*name, *f), *f, *x, nested, call, depth)
                }
                Op::NamedDirect { name, f, x, nested } => {
                    let key = Key::Named(*name, *f);
                    self.keys_touched.insert(format!("named-direct:{name}:{:?}", f));
                    if self.store.contains_key(&key) {
                        self.run_keyed(key, *f, *x, nested, call, depth)
                    } else {
                        Outc::Err
                    }
                }
                Op::RegisterNamed { name, f } => {
                    self.store.insert(Key::Named(*name, *f), 0);
                    Outc::Done
                }
                Op::Spawn { slot, f } => {
                    self.spawned[*slot as usize % NS as usize] = Some((*f, 0, true, false));
                    self.spawn_gen[*slot as usize % NS as usize] += 1;
                    Outc::Done
                }
                Op::Spawned { slot, x, nested } => {
                    let s = *slot as usize % NS as usize;
                    self.keys_touched.insert(format!("spawned:{s}"));
                    match self.spawned[s] {
                        Some((f, n, true, false)) => {
                            self.spawned[s] = Some((f, n, true, true));
                            self.bodies.insert(call, (f, n + 1));
                            let gen_before = self.spawn_gen[s];
                            self.exec(nested, depth + 1);
                            // reinserted only if the same entity still exists
                            if self.spawn_gen[s] == gen_before {
                                if let Some((_, _, alive, _)) = self.spawned[s] {
                                    self.spawned[s] = Some((f, n + 1, alive, false));
                                }
                            }
                            Outc::Ok(expected_value(f, *x), n + 1)
                        }
                        Some((_, _, true, true)) => {
                            self.reentrant_calls += 1;
                            Outc::Err
                        }
                        _ => Outc::Err,
                    }
                }
                Op::CmdSpawned { .. } => Outc::Queued,
                Op::DespawnSpawned { slot } => {
                    let s = *slot as usize % NS as usize;
                    if let Some((f, n, _, running)) = self.spawned[s] {
                        self.spawned[s] = Some((f, n, false, running));
                    }
                    Outc::Done
                }
            };
            self.expect.insert(call, res);
        }
    }
}

pub struct SyscConfig {
    pub tier: String,
    pub seed: u64,
    pub out: String,
    pub replay_dir: String,
    pub sequences: usize,
    pub no_floor: bool,
}

#[derive(Serialize, Deserialize)]
pub struct SyscReplay {
    pub property: String,
    pub signature: String,
    pub message: String,
    pub ops: Vec<Op>,
}

pub fn run_check(cfg: &SyscConfig) -> (usize, Option<String>) {
    let t0 = Instant::now();
    let max_depth = if cfg.tier == "thorough" { 3 } else { 2 };
    let mut evaluations = 0usize;
    let mut calls = 0u64;
    let mut nested = 0u64;
    let mut reentrant = 0u64;
    let mut nontrivial = 0usize;
    let mut shapes: BTreeSet<u64> = BTreeSet::new();
    let mut sigs: BTreeMap<String, (usize, Vec<Op>, String)> = BTreeMap::new();
    let mut samples = vec![];
    let mut harness_errors = vec![];
    for k in 0..cfg.sequences {
        let ops = gen_sequence(cfg.seed.wrapping_mul(7919).wrapping_add(k as u64), max_depth);
        let r = std::panic::catch_unwind(std::panic::AssertUnwindSafe(|| run_sequence(&ops)));
        let r = match r {
            Ok(r) => r,
            Err(p) => {
                let msg = p.downcast_ref::<String>().cloned().or_else(|| p.downcast_ref::<&str>().map(|s| s.to_string())).unwrap_or_default();
                // a panic of the code under test is a violation; a panic of the harness would show up on every tree
                sigs.entry("C17/panic".into()).or_insert((0, ops.clone(), msg)).0 += 1;
                if harness_errors.len() < 3 {
                    harness_errors.push(k);
                }
                continue;
            }
        };
        evaluations += 1;
        calls += r.calls as u64;
        nested += r.nested as u64;
        reentrant += r.reentrant as u64;
        if r.keys >= 2 && r.nested >= 1 {
            nontrivial += 1;
            let mut h = 0xcbf29ce484222325u64;
            for e in r.log.iter() {
                let tag = match e {
                    LogEv::Call(_) => 1u64,
                    LogEv::Body { f, local, .. } => 2 + (*local as u64) * 31 + format!("{:?}", f).len() as u64 * 7 + match f { Fun::Ord(i) => *i as u64, Fun::Excl(i) => 10 + *i as u64 },
                    LogEv::MarkerApplied(_) => 3,
                    LogEv::Return { res, .. } => match res {
                        Outc::Ok(..) => 4,
                        Outc::Err => 5,
                        Outc::Done => 6,
                        Outc::Queued => 7,
                    },
                };
                h ^= tag;
                h = h.wrapping_mul(0x100000001b3);
            }
            shapes.insert(h);
            if samples.len() < 2 {
                samples.push(json!({"ops": ops, "log": r.log.iter().take(40).collect::<Vec<_>>()}));
            }
        }
        for (sig, msg) in r.violations {
            sigs.entry(sig).or_insert((0, ops.clone(), msg)).0 += 1;
        }
    }
    let _ = std::fs::create_dir_all(&cfg.replay_dir);
    let mut total = 0;
    let mut records = vec![];
    for (n, (sig, (count, ops, msg))) in sigs.iter().enumerate() {
        total += count;
        // shrink: drop top-level ops while the signature persists
        let mut cur = ops.clone();
        let mut i = cur.len();
        while i > 0 {
            i -= 1;
            let mut c = cur.clone();
            c.remove(i);
            let still = std::panic::catch_unwind(std::panic::AssertUnwindSafe(|| run_sequence(&c)))
                .map(|r| r.violations.iter().any(|v| &v.0 == sig))
                .unwrap_or(sig == "C17/panic");
            if still {
                cur = c;
            }
        }
        let path = format!("{}/C17-{}-{}.json", cfg.replay_dir, cfg.seed, n);
        let _ = std::fs::write(&path, serde_json::to_string_pretty(&SyscReplay { property: "C17".into(), signature: sig.clone(), message: msg.clone(), ops: cur }).unwrap());
        println!("VIOLATION property=C17 replay={}", path);
        println!("  signature={} count={}: {}", sig, count, msg);
        records.push(json!({"signature": sig, "count": count, "message": msg, "replay": path}));
    }
    let inconclusive = if !cfg.no_floor && shapes.len() < 20 { Some(format!("coverage floor not met: {} distinct non-trivial sequences", shapes.len())) } else { None };
    let ev = json!({
        "property_id": "C17",
        "tier": cfg.tier,
        "seed": cfg.seed,
        "level": "exploration",
        "coverage": {
            "evaluations": evaluations,
            "distinct_nontrivial": shapes.len(),
            "rule": "seeded random call sequences (5-40 top-level calls, nesting depth <=2 quick / <=3 thorough) over syscall, syscall_once, Commands::syscall, named_syscall, named_syscall_direct, register_named_system, spawn_system, spawned_syscall, Commands::spawned_syscall and despawning of spawned systems, with 6 function types (3 ordinary, 3 exclusive), 3 names, 3 spawned slots; nested calls are made from inside exclusive systems and from commands queued by ordinary systems; non-trivial = sequence that touches >=2 keys and contains >=1 nested call; distinct = distinct logs (call/body/marker/return kinds and local counters in order)",
            "samples": samples,
            "calls_checked": calls,
            "nested_calls": nested,
            "reentrant_same_key_calls": reentrant,
            "sequences_nontrivial": nontrivial,
        },
        "assumptions": ["the documented recursion caveat of syscall/named_syscall (a re-entrant call sees fresh state that is discarded) is modelled as documented"],
        "wall_s": t0.elapsed().as_secs_f64(),
        "violations": total,
        "violation_signatures": records,
        "inconclusive": inconclusive,
    });
    if let Some(dir) = std::path::Path::new(&cfg.out).parent() {
        let _ = std::fs::create_dir_all(dir);
    }
    let _ = std::fs::write(&cfg.out, serde_json::to_string_pretty(&ev).unwrap());
    println!(
        "C17 {}: {} sequences, {} calls ({} nested, {} re-entrant on a busy key), {} distinct non-trivial logs, {:.1}s; violations: {}",
        cfg.tier,
        evaluations,
        calls,
        nested,
        reentrant,
        shapes.len(),
        t0.elapsed().as_secs_f64(),
        total
    );
    if let Some(m) = &inconclusive {
        println!("INCONCLUSIVE: {m}");
    }
    (total, inconclusive)
}

pub fn replay(path: &str) -> bool {
    let s = std::fs::read_to_string(path).expect("cannot read replay file");
    let rf: SyscReplay = serde_json::from_str(&s).expect("malformed replay file");
    let r = run_sequence(&rf.ops);
    for e in r.log.iter() {
        println!("{:?}", e);
    }
    for v in r.violations.iter() {
        println!("{}: {}", v.0, v.1);
    }
    r.violations.iter().any(|v| v.0 == rf.signature)
}
