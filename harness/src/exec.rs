//! Executes a `Program` against the real crate and records the trace.

use bevy::ecs::system::SystemState;
use bevy::ecs::world::Command;
use bevy::prelude::*;
use bevy_cobweb::prelude::*;
use bevy_cobweb::verif as hooks;
use std::panic::{catch_unwind, AssertUnwindSafe};
use std::sync::{Arc, Mutex};

use crate::program::*;
use crate::trace::*;
use crate::types::*;

//-------------------------------------------------------------------------------------------------------------------

pub struct SysInfo {
    pub cmd: SystemCommand,
    pub kind: SysKindTag,
    pub flavour: Flavour,
    pub script: usize,
    pub mode: Option<Mode>,
}

/// Mutable harness state of one world.
pub struct St {
    pub prog: Arc<Program>,
    pub ents: Vec<Entity>,
    pub slot_cur: [usize; NE],
    pub slot_prev: [Option<usize>; NE],
    pub systems: Vec<SysInfo>,
    pub published: Vec<Inst>,
    pub tokens: Vec<(RevokeToken, Inst)>,
    pub wr_inst: [Inst; NT],
    pub ew_inst: [Inst; NT],
    pub probe_inst: Inst,
    pub wr_added: [Vec<Vec<(Trig, Entity)>>; NT],
    /// Actions of the current frame for the three frame systems (app mode): (run id, first seq, actions).
    pub frame_acts: [Option<(RunId, u32, Vec<Act>)>; 3],
    /// Entity of the system command whose run the runner began most recently (from the runner hook); lets the
    /// zero-sized body find out which registration it is running for.
    pub last_target: u64,
    pub fuel: u32,
    pub next_pay: u32,
    pub next_run: u32,
    pub next_cmd: u32,
}

impl St {
    pub fn ent(&self, r: EntRef) -> Entity {
        let slot = (r as usize) % NE;
        if (r as usize) >= NE {
            if let Some(p) = self.slot_prev[slot] {
                return self.ents[p];
            }
        }
        self.ents[self.slot_cur[slot]]
    }
    fn pick_published(&self, x: u8, pred: impl Fn(&SysInfo) -> bool) -> Option<Inst> {
        let c: Vec<Inst> = self.published.iter().copied().filter(|i| pred(&self.systems[*i])).collect();
        if c.is_empty() {
            None
        } else {
            Some(c[(x as usize) % c.len()])
        }
    }
    fn items(&self, bundle: &[Trig]) -> Vec<(Trig, Entity)> {
        bundle
            .iter()
            .take(MAX_BUNDLE)
            .map(|t| (*t, t.ent_ref().map(|r| self.ent(r)).unwrap_or(Entity::PLACEHOLDER)))
            .collect()
    }
}

#[derive(Resource, Clone)]
pub struct ShRes(pub Arc<Shared>);

/// Only the first entity of slot 1 carries it. Ordinary and zero-sized bodies take a `Populated<.., With<Gate>>` parameter:
/// once that entity is gone the parameter fails Bevy's `validate_param` (which the crate does not consult: the system
/// must run all the same, with an empty query).
#[derive(Component)]
pub struct Gate;
pub type GateParam<'w, 's> = Populated<'w, 's, Entity, With<Gate>>;

/// Marker on every harness entity; its `on_remove` hook logs the despawn of the entity whatever caused it.
#[derive(Component)]
pub struct Tracked;

//-------------------------------------------------------------------------------------------------------------------
// World reactors

pub struct Wr<const N: u8> {
    pub sh: Arc<Shared>,
    pub inst: Inst,
}
impl WorldReactor for Wr<0> {
    type StartingTriggers = ();
    type Triggers = DynBundle;
    fn reactor(self) -> SystemCommandCallback {
        SystemCommandCallback::new(make_body_ord(self.inst, self.sh))
    }
}
/// World reactor 1 is added with `App::add_world_reactor_with` and (possibly empty) starting triggers.
impl WorldReactor for Wr<1> {
    type StartingTriggers = DynBundle;
    type Triggers = DynBundle;
    fn reactor(self) -> SystemCommandCallback {
        SystemCommandCallback::new(make_body_ord(self.inst, self.sh))
    }
}

/// `App::add_reactor`, generic over the bundle type.
struct AppRegFn<'a> {
    app: &'a mut App,
    inst: Inst,
    flavour: Flavour,
    sh: &'a Arc<Shared>,
}
impl<'a> BundleFn for AppRegFn<'a> {
    type Out = ();
    fn call<B: ReactionTriggerBundle>(self, b: B) {
        let AppRegFn { app, inst, flavour, sh } = self;
        match flavour {
            Flavour::Ord => app.add_reactor(b, make_body_ord(inst, sh.clone())),
            Flavour::Excl => app.add_reactor(b, make_body_excl(inst, sh.clone())),
            Flavour::ExclErr => app.add_reactor(b, make_body_excl_err(inst, sh.clone())),
            Flavour::Follow => app.add_reactor(b, make_body_follow(inst, sh.clone())),
            Flavour::DropErr => app.add_reactor(b, make_body_drop_err(inst, sh.clone())),
            Flavour::WarnErr => app.add_reactor(b, make_body_warn_err(inst, sh.clone())),
            Flavour::Zst => app.add_reactor(b, zst_body),
        };
    }
}

pub struct Ew<const N: u8> {
    pub sh: Arc<Shared>,
    pub inst: Inst,
}
impl EntityWorldReactor for Ew<0> {
    type Triggers = (EntityMutationTrigger<Rc<0>>, EntityEventTrigger<Ee<0>>);
    type Local = u32;
    fn reactor(self) -> SystemCommandCallback {
        SystemCommandCallback::new(make_body_ew::<Ew<0>>(self.inst, self.sh))
    }
}
impl EntityWorldReactor for Ew<1> {
    type Triggers = (EntityInsertionTrigger<Rc<1>>, EntityRemovalTrigger<Rc<1>>);
    type Local = u32;
    fn reactor(self) -> SystemCommandCallback {
        SystemCommandCallback::new(make_body_ew::<Ew<1>>(self.inst, self.sh))
    }
}

/// Abstract triggers of an entity world reactor for entity reference `r`.
pub fn ew_trigs(ew: u8, r: EntRef) -> Vec<Trig> {
    if ew == 0 {
        vec![Trig::EMut(r, 0), Trig::Ee(r, 0)]
    } else {
        vec![Trig::EIns(r, 1), Trig::ERem(r, 1)]
    }
}

//-------------------------------------------------------------------------------------------------------------------
// Bodies

struct RunCtx {
    run: RunId,
    acts: Vec<Act>,
    err: bool,
}

fn begin_run(sh: &Arc<Shared>, inst: Inst, ordinal: u32, local: u32, obs: Obs) -> RunCtx {
    let mut st = lk(&sh.st);
    let run = st.next_run;
    st.next_run += 1;
    let fuel = st.fuel;
    sh.push(Ev::RunStart { run, inst, ordinal, local, obs, fuel });
    let info = &st.systems[inst];
    let flavour = info.flavour;
    let acts = if fuel == 0 || info.kind == SysKindTag::Probe {
        vec![]
    } else {
        let sc = &st.prog.scripts[info.script % st.prog.scripts.len().max(1)];
        sc.acts(ordinal as usize - 1).to_vec()
    };
    if fuel > 0 {
        st.fuel -= 1;
    }
    let err = matches!(flavour, Flavour::DropErr | Flavour::WarnErr | Flavour::ExclErr) && (ordinal as usize + inst) % 2 == 0;
    RunCtx { run, acts, err }
}

pub fn make_body_ord(
    inst: Inst,
    sh: Arc<Shared>,
) -> impl FnMut(Readers, Access, WrAccess, Commands, Local<u32>, GateParam) + Send + Sync + 'static {
    let canary = Canary { inst, sh: sh.clone() };
    let mut ordinal = 0u32;
    move |mut r: Readers, mut acc: Access, mut wr: WrAccess, mut c: Commands, mut l: Local<u32>, _gate: GateParam| {
        let _ = &canary;
        ordinal += 1;
        *l += 1;
        let (obs, held) = sample(&mut r);
        let ctx = begin_run(&sh, inst, ordinal, *l, obs);
        drop(held);
        exec_acts(&sh, ctx.run, &ctx.acts, &mut c, &mut acc, Some(&mut wr));
        sh.push(Ev::BodyEnd { run: ctx.run, err: false });
    }
}

/// Result type of the `Follow` flavour: handling it queues a marker command (attributed to the run that returned it).
pub struct FollowUp {
    sh: Arc<Shared>,
    cmd: CmdId,
}
impl CobwebResult for FollowUp {
    fn need_to_handle(&self) -> bool {
        true
    }
    fn handle(self, world: &mut World) {
        let (sh, cmd) = (self.sh, self.cmd);
        let sh2 = sh.clone();
        world.commands().queue(move |w: &mut World| {
            let facts = sample_facts(w, &sh);
            sh.push(Ev::Pre { cmd, facts });
        });
        world.commands().queue(move |w: &mut World| {
            let facts = sample_facts(w, &sh2);
            sh2.push(Ev::Post { cmd, facts });
        });
    }
}

pub fn make_body_follow(
    inst: Inst,
    sh: Arc<Shared>,
) -> impl FnMut(Readers, Access, WrAccess, Commands, Local<u32>) -> FollowUp + Send + Sync + 'static {
    let canary = Canary { inst, sh: sh.clone() };
    let mut ordinal = 0u32;
    move |mut r: Readers, mut acc: Access, mut wr: WrAccess, mut c: Commands, mut l: Local<u32>| {
        let _ = &canary;
        ordinal += 1;
        *l += 1;
        let (obs, held) = sample(&mut r);
        let ctx = begin_run(&sh, inst, ordinal, *l, obs);
        drop(held);
        exec_acts(&sh, ctx.run, &ctx.acts, &mut c, &mut acc, Some(&mut wr));
        // the follow-up command is issued by this run, after everything else it queued
        let cmd = new_cmd(&sh);
        issued(&sh, ctx.run, ctx.acts.len() as u32 + 100, cmd, RAct::Mark);
        sh.push(Ev::BodyEnd { run: ctx.run, err: false });
        FollowUp { sh: sh.clone(), cmd }
    }
}

pub fn make_body_drop_err(
    inst: Inst,
    sh: Arc<Shared>,
) -> impl FnMut(Readers, Access, WrAccess, Commands, Local<u32>) -> DropErr + Send + Sync + 'static {
    let canary = Canary { inst, sh: sh.clone() };
    let mut ordinal = 0u32;
    move |mut r: Readers, mut acc: Access, mut wr: WrAccess, mut c: Commands, mut l: Local<u32>| {
        let _ = &canary;
        ordinal += 1;
        *l += 1;
        let (obs, held) = sample(&mut r);
        let ctx = begin_run(&sh, inst, ordinal, *l, obs);
        drop(held);
        exec_acts(&sh, ctx.run, &ctx.acts, &mut c, &mut acc, Some(&mut wr));
        sh.push(Ev::BodyEnd { run: ctx.run, err: ctx.err });
        if ctx.err {
            // early-out semantics: `?` on a failed lookup
            None::<()>.result()?;
        }
        DONE
    }
}

pub fn make_body_warn_err(
    inst: Inst,
    sh: Arc<Shared>,
) -> impl FnMut(Readers, Access, WrAccess, Commands, Local<u32>) -> WarnErr + Send + Sync + 'static {
    let canary = Canary { inst, sh: sh.clone() };
    let mut ordinal = 0u32;
    move |mut r: Readers, mut acc: Access, mut wr: WrAccess, mut c: Commands, mut l: Local<u32>| {
        let _ = &canary;
        ordinal += 1;
        *l += 1;
        let (obs, held) = sample(&mut r);
        let ctx = begin_run(&sh, inst, ordinal, *l, obs);
        drop(held);
        exec_acts(&sh, ctx.run, &ctx.acts, &mut c, &mut acc, Some(&mut wr));
        sh.push(Ev::BodyEnd { run: ctx.run, err: ctx.err });
        if ctx.err {
            None::<()>.result()?;
        }
        OK
    }
}

/// The zero-sized reactor / system body: a plain `fn` item. All registrations of it share one function type; it finds
/// out which registration is running from the runner hook (`St::last_target`). Its only state is its `Local`s: the run
/// counter and a canary created on the first run (dropped with the system state).
pub fn zst_body(mut r: Readers, mut acc: Access, mut wr: WrAccess, mut c: Commands, mut l: Local<u32>, mut can: Local<Option<Canary>>, shr: Res<ShRes>, _gate: GateParam) {
    let sh = shr.0.clone();
    *l += 1;
    let inst = {
        let st = lk(&sh.st);
        let t = st.last_target;
        st.systems.iter().position(|s| ebits(*s.cmd) == t)
    };
    let Some(inst) = inst else { panic!("the zero-sized harness system ran for a system entity the harness does not know") };
    if can.is_none() {
        *can = Some(Canary { inst, sh: sh.clone() });
    }
    let (obs, held) = sample(&mut r);
    let ctx = begin_run(&sh, inst, *l, *l, obs);
    drop(held);
    exec_acts(&sh, ctx.run, &ctx.acts, &mut c, &mut acc, Some(&mut wr));
    sh.push(Ev::BodyEnd { run: ctx.run, err: false });
}

type ExclState = SystemState<(Readers<'static, 'static>, Access<'static, 'static>, WrAccess<'static>, Commands<'static, 'static>)>;

pub fn make_body_excl(
    inst: Inst,
    sh: Arc<Shared>,
) -> impl FnMut(&mut World, &mut ExclState, Local<u32>) + Send + Sync + 'static {
    let canary = Canary { inst, sh: sh.clone() };
    let mut ordinal = 0u32;
    move |world: &mut World, state: &mut ExclState, mut l: Local<u32>| {
        let _ = &canary;
        ordinal += 1;
        *l += 1;
        let run;
        let acts;
        {
            let (mut r, _acc, _wr, _c) = state.get_mut(world);
            let (obs, held) = sample(&mut r);
            let ctx = begin_run(&sh, inst, ordinal, *l, obs);
            drop(held);
            run = ctx.run;
            acts = ctx.acts;
        }
        // Direct nested calls made from inside the body (before anything is queued): probes and every second manual
        // run are issued with `SystemCommand::apply(world)`.
        let mut queued: Vec<(u32, Act)> = vec![];
        for (seq, a) in acts.iter().enumerate() {
            let direct = matches!(a, Act::Probe(false)) || matches!(a, Act::Run(x) if x % 2 == 1);
            if !(direct && direct_act(world, &sh, run, seq as u32, a, Entry::WorldApi)) {
                queued.push((seq as u32, a.clone()));
            }
        }
        {
            let (_r, mut acc, mut wr, mut c) = state.get_mut(world);
            for (seq, a) in queued.iter() {
                exec_act(&sh, run, *seq, a, &mut c, &mut acc, Some(&mut wr));
            }
        }
        sh.push(Ev::BodyEnd { run, err: false });
        // Apply the commands queued by this body (the framework's cleanup command, queued on the world before
        // this system ran, is flushed first).
        state.apply(world);
    }
}

pub fn make_body_excl_err(
    inst: Inst,
    sh: Arc<Shared>,
) -> impl FnMut(&mut World, &mut ExclState, Local<u32>) -> WarnErr + Send + Sync + 'static {
    let canary = Canary { inst, sh: sh.clone() };
    let mut ordinal = 0u32;
    move |world: &mut World, state: &mut ExclState, mut l: Local<u32>| {
        let _ = &canary;
        ordinal += 1;
        *l += 1;
        let run;
        let acts;
        let err;
        {
            let (mut r, _acc, _wr, _c) = state.get_mut(world);
            let (obs, held) = sample(&mut r);
            let ctx = begin_run(&sh, inst, ordinal, *l, obs);
            drop(held);
            run = ctx.run;
            acts = ctx.acts;
            err = ctx.err;
        }
        // Direct nested calls made from inside the body (before anything is queued): probes and every second manual
        // run are issued with `SystemCommand::apply(world)`.
        let mut queued: Vec<(u32, Act)> = vec![];
        for (seq, a) in acts.iter().enumerate() {
            let direct = matches!(a, Act::Probe(false)) || matches!(a, Act::Run(x) if x % 2 == 1);
            if !(direct && direct_act(world, &sh, run, seq as u32, a, Entry::WorldApi)) {
                queued.push((seq as u32, a.clone()));
            }
        }
        {
            let (_r, mut acc, mut wr, mut c) = state.get_mut(world);
            for (seq, a) in queued.iter() {
                exec_act(&sh, run, *seq, a, &mut c, &mut acc, Some(&mut wr));
            }
        }
        sh.push(Ev::BodyEnd { run, err });
        // Apply the commands queued by this body (the framework's cleanup command, queued on the world before
        // this system ran, is flushed first).
        state.apply(world);
        if err {
            None::<()>.result()?;
        }
        OK
    }
}

pub fn make_body_ew<T: EntityWorldReactor<Local = u32>>(
    inst: Inst,
    sh: Arc<Shared>,
) -> impl FnMut(Readers, Access, Commands, Local<u32>, EntityLocal<T>) + Send + Sync + 'static {
    let canary = Canary { inst, sh: sh.clone() };
    let mut ordinal = 0u32;
    move |mut r: Readers, mut acc: Access, mut c: Commands, mut l: Local<u32>, mut el: EntityLocal<T>| {
        let _ = &canary;
        ordinal += 1;
        *l += 1;
        let (mut obs, held) = sample(&mut r);
        // `EntityLocal` panics when the run was not caused by an entity of this reactor; record that as "nothing".
        let got = catch_unwind(AssertUnwindSafe(|| {
            let (e, d) = el.get_mut();
            let before = *d;
            *d += 1;
            (ebits(e), before)
        }));
        obs.ew_local = got.ok();
        let ctx = begin_run(&sh, inst, ordinal, *l, obs);
        drop(held);
        exec_acts(&sh, ctx.run, &ctx.acts, &mut c, &mut acc, None);
        sh.push(Ev::BodyEnd { run: ctx.run, err: false });
    }
}

fn spawn_body(c: &mut Commands, inst: Inst, flavour: Flavour, sh: &Arc<Shared>) -> SystemCommand {
    match flavour {
        Flavour::Ord => c.spawn_system_command(make_body_ord(inst, sh.clone())),
        Flavour::Excl => c.spawn_system_command(make_body_excl(inst, sh.clone())),
        Flavour::ExclErr => c.spawn_system_command(make_body_excl_err(inst, sh.clone())),
        Flavour::Follow => c.spawn_system_command(make_body_follow(inst, sh.clone())),
        Flavour::DropErr => c.spawn_system_command(make_body_drop_err(inst, sh.clone())),
        Flavour::WarnErr => c.spawn_system_command(make_body_warn_err(inst, sh.clone())),
        Flavour::Zst => c.spawn_system_command(zst_body),
    }
}

/// Registration of a reactor, generic over the concrete bundle type (see `types::with_bundle`).
/// api 0: `spawn_system_command` + `ReactCommands::with`; api 1: `on` / `on_persistent` / `on_revokable`.
struct RegFn<'a, 'w, 's> {
    c: &'a mut Commands<'w, 's>,
    inst: Inst,
    flavour: Flavour,
    sh: &'a Arc<Shared>,
    mode: Mode,
    once: bool,
    api: u8,
}

impl<'a, 'w, 's> BundleFn for RegFn<'a, 'w, 's> {
    /// (system command if known at call time, token)
    type Out = (Option<SystemCommand>, Option<RevokeToken>);
    fn call<B: ReactionTriggerBundle>(self, b: B) -> Self::Out {
        let RegFn { c, inst, flavour, sh, mode, once, api } = self;
        if once {
            let tok = match flavour {
                Flavour::Ord => c.react().once(b, make_body_ord(inst, sh.clone())),
                Flavour::Excl => c.react().once(b, make_body_excl(inst, sh.clone())),
                Flavour::ExclErr => c.react().once(b, make_body_excl_err(inst, sh.clone())),
                Flavour::Follow => c.react().once(b, make_body_follow(inst, sh.clone())),
                Flavour::DropErr => c.react().once(b, make_body_drop_err(inst, sh.clone())),
                Flavour::WarnErr => c.react().once(b, make_body_warn_err(inst, sh.clone())),
                Flavour::Zst => c.react().once(b, zst_body),
            };
            return (Some(SystemCommand::from(tok.clone())), Some(tok));
        }
        if api == 0 {
            let sc = spawn_body(c, inst, flavour, sh);
            let tok = c.react().with(b, sc, rmode(mode));
            return (Some(sc), tok);
        }
        match mode {
            Mode::Persistent => {
                let sc = match flavour {
                    Flavour::Ord => c.react().on_persistent(b, make_body_ord(inst, sh.clone())),
                    Flavour::Excl => c.react().on_persistent(b, make_body_excl(inst, sh.clone())),
                    Flavour::ExclErr => c.react().on_persistent(b, make_body_excl_err(inst, sh.clone())),
                    Flavour::Follow => c.react().on_persistent(b, make_body_follow(inst, sh.clone())),
                    Flavour::DropErr => c.react().on_persistent(b, make_body_drop_err(inst, sh.clone())),
                    Flavour::WarnErr => c.react().on_persistent(b, make_body_warn_err(inst, sh.clone())),
                    Flavour::Zst => c.react().on_persistent(b, zst_body),
                };
                (Some(sc), None)
            }
            Mode::Revokable => {
                let tok = match flavour {
                    Flavour::Ord => c.react().on_revokable(b, make_body_ord(inst, sh.clone())),
                    Flavour::Excl => c.react().on_revokable(b, make_body_excl(inst, sh.clone())),
                    Flavour::ExclErr => c.react().on_revokable(b, make_body_excl_err(inst, sh.clone())),
                    Flavour::Follow => c.react().on_revokable(b, make_body_follow(inst, sh.clone())),
                    Flavour::DropErr => c.react().on_revokable(b, make_body_drop_err(inst, sh.clone())),
                    Flavour::WarnErr => c.react().on_revokable(b, make_body_warn_err(inst, sh.clone())),
                    Flavour::Zst => c.react().on_revokable(b, zst_body),
                };
                (Some(SystemCommand::from(tok.clone())), Some(tok))
            }
            Mode::Cleanup => {
                // `on` returns nothing: the system entity is discovered when the registration is published
                match flavour {
                    Flavour::Ord => c.react().on(b, make_body_ord(inst, sh.clone())),
                    Flavour::Excl => c.react().on(b, make_body_excl(inst, sh.clone())),
                    Flavour::ExclErr => c.react().on(b, make_body_excl_err(inst, sh.clone())),
                    Flavour::Follow => c.react().on(b, make_body_follow(inst, sh.clone())),
                    Flavour::DropErr => c.react().on(b, make_body_drop_err(inst, sh.clone())),
                    Flavour::WarnErr => c.react().on(b, make_body_warn_err(inst, sh.clone())),
                    Flavour::Zst => c.react().on(b, zst_body),
                }
                (None, None)
            }
        }
    }
}

/// `ReactCommands::with` on an existing system command, generic over the bundle type.
struct WithFn<'a, 'w, 's> {
    c: &'a mut Commands<'w, 's>,
    sc: SystemCommand,
}
impl<'a, 'w, 's> BundleFn for WithFn<'a, 'w, 's> {
    type Out = ();
    fn call<B: ReactionTriggerBundle>(self, b: B) {
        self.c.react().with(b, self.sc, ReactorMode::Persistent);
    }
}

fn rmode(m: Mode) -> ReactorMode {
    match m {
        Mode::Persistent => ReactorMode::Persistent,
        Mode::Cleanup => ReactorMode::Cleanup,
        Mode::Revokable => ReactorMode::Revokable,
    }
}

//-------------------------------------------------------------------------------------------------------------------
// Facts and markers

pub fn sample_facts(w: &World, sh: &Arc<Shared>) -> Facts {
    let st = lk(&sh.st);
    let mut f = Facts::default();
    for (i, e) in st.ents.iter().enumerate() {
        if w.get_entity(*e).is_ok() {
            f.ents_alive |= 1 << i;
        }
        f.comps.push([w.get::<React<Rc<0>>>(*e).map(|c| c.get().0), w.get::<React<Rc<1>>>(*e).map(|c| c.get().0)]);
    }
    for (i, s) in st.systems.iter().enumerate() {
        if w.get_entity(*s.cmd).is_ok() {
            f.sys_alive |= 1 << i;
        }
    }
    f.res = [w.react_resource::<Rr<0>>().0, w.react_resource::<Rr<1>>().0];
    f
}

fn q_pre(c: &mut Commands, sh: &Arc<Shared>, cmd: CmdId) {
    let sh = sh.clone();
    c.queue(move |w: &mut World| {
        let facts = sample_facts(w, &sh);
        sh.push(Ev::Pre { cmd, facts });
    });
}

fn q_post(c: &mut Commands, sh: &Arc<Shared>, cmd: CmdId) {
    let sh = sh.clone();
    c.queue(move |w: &mut World| {
        let facts = sample_facts(w, &sh);
        sh.push(Ev::Post { cmd, facts });
    });
}

fn q_tables(c: &mut Commands, sh: &Arc<Shared>, cmd: CmdId, phase: u8) {
    let sh = sh.clone();
    c.queue(move |w: &mut World| {
        let s = take_snap(w);
        applied(&sh, cmd, Note::Tables { phase, tables: s.tables, entity_entries: s.entity_reactor_entries });
    });
}

fn new_cmd(sh: &Arc<Shared>) -> CmdId {
    let mut st = lk(&sh.st);
    let id = st.next_cmd;
    st.next_cmd += 1;
    id
}

fn new_pay(sh: &Arc<Shared>) -> PayId {
    let mut st = lk(&sh.st);
    let id = st.next_pay;
    st.next_pay += 1;
    id
}

fn issued(sh: &Arc<Shared>, run: RunId, seq: u32, cmd: CmdId, act: RAct) {
    sh.push(Ev::Issued { run, seq, cmd, act });
}

//-------------------------------------------------------------------------------------------------------------------
// Action execution from inside a system (body or driver one-shot system)

pub fn exec_acts(sh: &Arc<Shared>, run: RunId, acts: &[Act], c: &mut Commands, acc: &mut Access, mut wr: Option<&mut WrAccess>) {
    for (seq, a) in acts.iter().enumerate() {
        exec_act(sh, run, seq as u32, a, c, acc, wr.as_deref_mut());
    }
}

fn access_comp<const N: u8>(
    q: &mut ReactiveMut<Rc<N>>,
    c: &mut Commands,
    e: Entity,
    how: How,
    val: u32,
) -> (bool, Option<u32>, bool, bool, Option<u32>) {
    // returns (hit, old, ret_some, triggers, value after the call)
    let old = q.get(e).ok().map(|v| v.0);
    let hit = old.is_some();
    let (a, b, c2, d) = match how {
        How::GetMut => {
            if let Ok(v) = q.get_mut(c, e) {
                v.0 = val;
            }
            (hit, old, false, hit)
        }
        How::SetIfNeq => {
            let ret = q.set_if_neq(c, e, Rc::<N>(val));
            (hit, old, ret.is_some(), hit && old != Some(val))
        }
        How::GetNoreact => {
            if let Ok(v) = q.get_noreact(e) {
                v.0 = val;
            }
            (hit, old, false, false)
        }
        How::Read => (hit, old, false, false),
    };
    (a, b, c2, d, q.get(e).ok().map(|v| v.0))
}

fn access_res<const N: u8>(q: &mut ReactResMut<Rr<N>>, c: &mut Commands, how: How, val: u32) -> (u32, bool, bool, u32) {
    // returns (old, ret_some, triggers, value after the call)
    let old = q.0;
    let (a, b, c2) = match how {
        How::GetMut => {
            q.get_mut(c).0 = val;
            (old, false, true)
        }
        How::SetIfNeq => {
            let ret = q.set_if_neq(c, Rr::<N>(val));
            (old, ret.is_some(), old != val)
        }
        How::GetNoreact => {
            q.get_noreact().0 = val;
            (old, false, false)
        }
        How::Read => (old, false, false),
    };
    (a, b, c2, q.0)
}

fn mut_how(h: How) -> MutHow {
    match h {
        How::GetMut => MutHow::GetMut,
        How::SetIfNeq => MutHow::SetIfNeq,
        How::GetNoreact => MutHow::GetNoreact,
        How::Read => MutHow::Read,
    }
}

fn applied(sh: &Arc<Shared>, cmd: CmdId, note: Note) {
    sh.push(Ev::Applied { cmd, note });
}

pub fn exec_act(sh: &Arc<Shared>, run: RunId, seq: u32, a: &Act, c: &mut Commands, acc: &mut Access, wr: Option<&mut WrAccess>) {
    let cmd = new_cmd(sh);
    match a.clone() {
        Act::Mark => {
            issued(sh, run, seq, cmd, RAct::Mark);
            q_pre(c, sh, cmd);
            q_post(c, sh, cmd);
        }
        Act::Run(x) => {
            let t = {
                let st = lk(&sh.st);
                st.pick_published(x, |s| !matches!(s.kind, SysKindTag::EntityWorldReactor(_) | SysKindTag::WorldReactor(_)))
                    .map(|i| (i, st.systems[i].cmd))
            };
            let Some((inst, sc)) = t else {
                issued(sh, run, seq, cmd, RAct::Noop);
                return;
            };
            issued(sh, run, seq, cmd, RAct::Run { inst });
            q_pre(c, sh, cmd);
            c.queue(sc);
            q_post(c, sh, cmd);
        }
        Act::SendSe(x, ty) => {
            let t = {
                let st = lk(&sh.st);
                st.pick_published(x, |s| !matches!(s.kind, SysKindTag::EntityWorldReactor(_) | SysKindTag::WorldReactor(_)))
                    .map(|i| (i, st.systems[i].cmd))
            };
            let Some((inst, sc)) = t else {
                issued(sh, run, seq, cmd, RAct::Noop);
                return;
            };
            let pay = new_pay(sh);
            issued(sh, run, seq, cmd, RAct::SendSe { inst, ty, pay });
            q_pre(c, sh, cmd);
            if ty == 0 {
                c.send_system_event(sc, Se::<0> { id: pay, sh: sh.clone() });
            } else {
                c.send_system_event(sc, Se::<1> { id: pay, sh: sh.clone() });
            }
            q_post(c, sh, cmd);
        }
        Act::RunEnt(r) => {
            let e = lk(&sh.st).ent(r);
            issued(sh, run, seq, cmd, RAct::RunEnt { ent: ebits(e) });
            q_pre(c, sh, cmd);
            c.queue(SystemCommand(e));
            q_post(c, sh, cmd);
        }
        Act::SendSeEnt(r, ty) => {
            let e = lk(&sh.st).ent(r);
            let pay = new_pay(sh);
            issued(sh, run, seq, cmd, RAct::SendSeEnt { ent: ebits(e), ty, pay });
            q_pre(c, sh, cmd);
            if ty == 0 {
                c.send_system_event(SystemCommand(e), Se::<0> { id: pay, sh: sh.clone() });
            } else {
                c.send_system_event(SystemCommand(e), Se::<1> { id: pay, sh: sh.clone() });
            }
            q_post(c, sh, cmd);
        }
        Act::Broadcast(ty) => {
            let pay = new_pay(sh);
            issued(sh, run, seq, cmd, RAct::Broadcast { ty, pay });
            q_pre(c, sh, cmd);
            if ty == 0 {
                c.react().broadcast(Bc::<0> { id: pay, sh: sh.clone() });
            } else {
                c.react().broadcast(Bc::<1> { id: pay, sh: sh.clone() });
            }
            q_post(c, sh, cmd);
        }
        Act::EntityEv(r, ty) => {
            let e = lk(&sh.st).ent(r);
            let pay = new_pay(sh);
            issued(sh, run, seq, cmd, RAct::EntityEv { ent: ebits(e), ty, pay });
            q_pre(c, sh, cmd);
            if ty == 0 {
                c.react().entity_event(e, Ee::<0> { id: pay, sh: sh.clone() });
            } else {
                c.react().entity_event(e, Ee::<1> { id: pay, sh: sh.clone() });
            }
            q_post(c, sh, cmd);
        }
        Act::Insert(r, comp, val) => {
            let e = lk(&sh.st).ent(r);
            // `ReactCommands::insert` returns early when the entity does not exist at call time.
            let queued = c.get_entity(e).is_some();
            issued(sh, run, seq, cmd, RAct::Insert { ent: ebits(e), comp, val, queued });
            q_pre(c, sh, cmd);
            if comp == 0 {
                c.react().insert(e, Rc::<0>(val));
            } else {
                c.react().insert(e, Rc::<1>(val));
            }
            q_post(c, sh, cmd);
        }
        Act::Access(r, comp, how, val) => {
            let e = lk(&sh.st).ent(r);
            q_pre(c, sh, cmd);
            let (hit, old, ret_some, triggers, after) = if comp == 0 {
                access_comp(&mut acc.0, c, e, how, val)
            } else {
                access_comp(&mut acc.1, c, e, how, val)
            };
            issued(
                sh,
                run,
                seq,
                cmd,
                RAct::Access { ent: ebits(e), comp, how: mut_how(how), hit, old, new: val, after, ret_some, triggers },
            );
            q_post(c, sh, cmd);
        }
        Act::TriggerMutation(r, comp) => {
            let e = lk(&sh.st).ent(r);
            issued(sh, run, seq, cmd, RAct::TriggerMutation { ent: ebits(e), comp });
            q_pre(c, sh, cmd);
            c.queue(move |w: &mut World| {
                if comp == 0 {
                    React::<Rc<0>>::trigger_mutation(e, w);
                } else {
                    React::<Rc<1>>::trigger_mutation(e, w);
                }
            });
            q_post(c, sh, cmd);
        }
        Act::Remove(r, comp) => {
            let e = lk(&sh.st).ent(r);
            issued(sh, run, seq, cmd, RAct::Remove { ent: ebits(e), comp });
            q_pre(c, sh, cmd);
            let sh2 = sh.clone();
            c.queue(move |w: &mut World| do_remove(w, &sh2, cmd, e, comp));
            q_post(c, sh, cmd);
        }
        Act::DespawnEnt(r) => {
            let e = lk(&sh.st).ent(r);
            issued(sh, run, seq, cmd, RAct::DespawnEnt { ent: ebits(e) });
            q_pre(c, sh, cmd);
            let sh2 = sh.clone();
            c.queue(move |w: &mut World| do_despawn_ent(w, &sh2, cmd, e));
            q_post(c, sh, cmd);
        }
        Act::AutoDespawnEnt(r) => {
            let e = lk(&sh.st).ent(r);
            issued(sh, run, seq, cmd, RAct::AutoDespawnEnt { ent: ebits(e) });
            q_pre(c, sh, cmd);
            c.queue(move |w: &mut World| {
                let signal = w.resource::<AutoDespawner>().prepare(e);
                drop(signal);
            });
            q_post(c, sh, cmd);
        }
        Act::RespawnEnt(slot) => {
            let slot = slot % NE as u8;
            issued(sh, run, seq, cmd, RAct::RespawnEnt { slot });
            q_pre(c, sh, cmd);
            let sh2 = sh.clone();
            c.queue(move |w: &mut World| do_respawn(w, &sh2, cmd, slot));
            q_post(c, sh, cmd);
        }
        Act::ResAccess(ty, how, val) => {
            q_pre(c, sh, cmd);
            let (old, ret_some, triggers, after) =
                if ty == 0 { access_res(&mut acc.2, c, how, val) } else { access_res(&mut acc.3, c, how, val) };
            issued(sh, run, seq, cmd, RAct::ResAccess { ty, how: mut_how(how), old, new: val, after, ret_some, triggers });
            q_post(c, sh, cmd);
        }
        Act::ResTrigger(ty) => {
            issued(sh, run, seq, cmd, RAct::ResTrigger { ty });
            q_pre(c, sh, cmd);
            if ty == 0 {
                c.react().trigger_resource_mutation::<Rr<0>>();
            } else {
                c.react().trigger_resource_mutation::<Rr<1>>();
            }
            q_post(c, sh, cmd);
        }
        Act::Register { mode, once, bundle, flavour, script, form } => {
            let (inst, items) = {
                let st = lk(&sh.st);
                if st.systems.len() >= MAX_INST {
                    drop(st);
                    issued(sh, run, seq, cmd, RAct::Noop);
                    return;
                }
                (st.systems.len(), st.items(&bundle))
            };
            let b = DynBundle::new(&items);
            let shape = form % N_SHAPES;
            let api = (form / N_SHAPES) % 2;
            q_pre(c, sh, cmd);
            let (sc, tok) = with_bundle(&items, shape, RegFn { c: &mut *c, inst, flavour, sh, mode, once, api });
            let kind = if once { SysKindTag::Once } else { SysKindTag::Reactor };
            let script_idx = {
                let mut st = lk(&sh.st);
                let script_idx = (script as usize) % st.prog.scripts.len().max(1);
                st.systems.push(SysInfo {
                    cmd: sc.unwrap_or(SystemCommand(Entity::PLACEHOLDER)),
                    kind,
                    flavour,
                    script: script_idx,
                    mode: Some(mode),
                });
                script_idx
            };
            if let Some(sc) = sc {
                sh.push(Ev::SysCreated { inst, ent: ebits(*sc), kind, flavour, script: script_idx });
            }
            issued(
                sh,
                run,
                seq,
                cmd,
                RAct::Register { inst, mode, once, flavour, script: script_idx, bundle: b.resolved(), form },
            );
            q_publish(c, sh, cmd, inst, tok, Some(b), sc.is_none());
            q_post(c, sh, cmd);
        }
        Act::SpawnSys { flavour, script } => {
            let inst = {
                let st = lk(&sh.st);
                if st.systems.len() >= MAX_INST {
                    drop(st);
                    issued(sh, run, seq, cmd, RAct::Noop);
                    return;
                }
                st.systems.len()
            };
            q_pre(c, sh, cmd);
            let sc = spawn_body(c, inst, flavour, sh);
            let script_idx = {
                let mut st = lk(&sh.st);
                let script_idx = (script as usize) % st.prog.scripts.len().max(1);
                st.systems.push(SysInfo { cmd: sc, kind: SysKindTag::Plain, flavour, script: script_idx, mode: None });
                script_idx
            };
            sh.push(Ev::SysCreated { inst, ent: ebits(*sc), kind: SysKindTag::Plain, flavour, script: script_idx });
            issued(sh, run, seq, cmd, RAct::SpawnSys { inst, flavour, script: script_idx });
            q_publish(c, sh, cmd, inst, None, None, false);
            q_post(c, sh, cmd);
        }
        Act::With { sys, bundle } => {
            let t = {
                let st = lk(&sh.st);
                st.pick_published(sys, |s| {
                    s.kind == SysKindTag::Plain || (s.kind == SysKindTag::Reactor && s.mode == Some(Mode::Persistent))
                })
                .map(|i| (i, st.systems[i].cmd, st.items(&bundle)))
            };
            let Some((inst, sc, items)) = t else {
                issued(sh, run, seq, cmd, RAct::Noop);
                return;
            };
            let b = DynBundle::new(&items);
            issued(sh, run, seq, cmd, RAct::With { inst, bundle: b.resolved() });
            q_pre(c, sh, cmd);
            // bundle shape: derived from the bundle itself so that replay files stay valid
            let shape = (items.len() as u8 + sys) % N_SHAPES;
            with_bundle(&items, shape, WithFn { c: &mut *c, sc });
            q_post(c, sh, cmd);
        }
        Act::Revoke(x) => {
            let t = {
                let st = lk(&sh.st);
                if st.tokens.is_empty() {
                    None
                } else {
                    let i = (x as usize) % st.tokens.len();
                    Some((i, st.tokens[i].0.clone()))
                }
            };
            let Some((token, tok)) = t else {
                issued(sh, run, seq, cmd, RAct::Noop);
                return;
            };
            issued(sh, run, seq, cmd, RAct::Revoke { token });
            q_pre(c, sh, cmd);
            q_tables(c, sh, cmd, 0);
            c.react().revoke(tok);
            q_tables(c, sh, cmd, 1);
            q_post(c, sh, cmd);
        }
        Act::DespawnSys(x) => {
            let t = {
                let st = lk(&sh.st);
                st.pick_published(x, |s| matches!(s.kind, SysKindTag::Plain | SysKindTag::Reactor | SysKindTag::Once))
                    .map(|i| (i, st.systems[i].cmd))
            };
            let Some((inst, sc)) = t else {
                issued(sh, run, seq, cmd, RAct::Noop);
                return;
            };
            issued(sh, run, seq, cmd, RAct::DespawnSys { inst });
            q_pre(c, sh, cmd);
            let sh2 = sh.clone();
            c.queue(move |w: &mut World| do_despawn_sys(w, &sh2, cmd, inst, sc));
            q_post(c, sh, cmd);
        }
        Act::Probe(via_syscall) => {
            issued(sh, run, seq, cmd, RAct::Probe { via_syscall });
            q_pre(c, sh, cmd);
            if via_syscall {
                c.syscall(cmd, probe_fn);
            } else {
                let sc = {
                    let st = lk(&sh.st);
                    st.systems[st.probe_inst].cmd
                };
                c.queue(sc);
            }
            q_post(c, sh, cmd);
        }
        Act::WrAdd(n, bundle) => {
            let n = n % NT as u8;
            let (inst, items) = {
                let st = lk(&sh.st);
                (st.wr_inst[n as usize], st.items(&bundle))
            };
            let b = DynBundle::new(&items);
            lk(&sh.st).wr_added[n as usize].push(items.clone());
            issued(sh, run, seq, cmd, RAct::WrAdd { wr: n, inst, bundle: b.resolved() });
            q_pre(c, sh, cmd);
            match wr {
                // the way users call it: with the system's own `Commands`
                Some(wr) => {
                    if n == 0 {
                        wr.0.add(c, b);
                    } else {
                        wr.1.add(c, b);
                    }
                }
                None => c.queue(move |w: &mut World| do_wr_add(w, n, b)),
            }
            q_post(c, sh, cmd);
        }
        Act::WrRemove(n, sel) => {
            let n = n % NT as u8;
            let (inst, items) = {
                let st = lk(&sh.st);
                let items = match &sel {
                    WrSel::Explicit(b) => st.items(b),
                    WrSel::Added { which, part } => {
                        let added = &st.wr_added[n as usize];
                        if added.is_empty() {
                            vec![]
                        } else {
                            let b = &added[(*which as usize) % added.len()];
                            if *part == 0 || b.is_empty() {
                                b.clone()
                            } else {
                                vec![b[(*part as usize - 1) % b.len()]]
                            }
                        }
                    }
                };
                (st.wr_inst[n as usize], items)
            };
            let b = DynBundle::new(&items);
            issued(sh, run, seq, cmd, RAct::WrRemove { wr: n, inst, bundle: b.resolved() });
            q_pre(c, sh, cmd);
            q_tables(c, sh, cmd, 0);
            match wr {
                Some(wr) => {
                    if n == 0 {
                        wr.0.remove(c, b);
                    } else {
                        wr.1.remove(c, b);
                    }
                }
                None => c.queue(move |w: &mut World| do_wr_remove(w, n, b)),
            }
            q_tables(c, sh, cmd, 1);
            q_post(c, sh, cmd);
        }
        Act::WrRun(n) => {
            let n = n % NT as u8;
            let inst = lk(&sh.st).wr_inst[n as usize];
            issued(sh, run, seq, cmd, RAct::WrRun { wr: n, inst });
            q_pre(c, sh, cmd);
            match wr {
                Some(wr) => {
                    if n == 0 {
                        wr.0.run(c);
                    } else {
                        wr.1.run(c);
                    }
                }
                None => c.queue(move |w: &mut World| do_wr_run(w, n)),
            }
            q_post(c, sh, cmd);
        }
        Act::EwAdd(n, r, data) => {
            let n = n % NT as u8;
            let (inst, e) = {
                let st = lk(&sh.st);
                (st.ew_inst[n as usize], st.ent(r))
            };
            issued(sh, run, seq, cmd, RAct::EwAdd { ew: n, inst, ent: ebits(e), data });
            q_pre(c, sh, cmd);
            // every second data value goes through the `EntityCommands` form of the same operation
            let mut via_entity_commands = false;
            if (data / 10) % 2 == 0 {
                if let Some(mut ec) = c.get_entity(e) {
                    if n == 0 {
                        ec.add_world_reactor::<Ew<0>>(data);
                    } else {
                        ec.add_world_reactor::<Ew<1>>(data);
                    }
                    via_entity_commands = true;
                }
            }
            let wr = if via_entity_commands { q_post(c, sh, cmd); return; } else { wr };
            match wr {
                Some(wr) => {
                    if n == 0 {
                        wr.2.add(c, e, data);
                    } else {
                        wr.3.add(c, e, data);
                    }
                }
                None => c.queue(move |w: &mut World| do_ew_add(w, n, e, data)),
            }
            q_post(c, sh, cmd);
        }
        Act::EwRemove(n, r, part) => {
            let n = n % NT as u8;
            let (inst, e, e2) = {
                let st = lk(&sh.st);
                (st.ew_inst[n as usize], st.ent(r), st.ent((r % NE as u8 + 1) % NE as u8))
            };
            let all = ew_trigs(n, 0);
            // part 0: whole bundle; 1..=2: a single trigger (partial removal); 3: the bundles of two entities at once
            let mut items: Vec<(Trig, Entity)> = if part == 0 || part >= 3 {
                all.iter().map(|t| (*t, e)).collect()
            } else {
                vec![(all[(part as usize - 1) % all.len()], e)]
            };
            let mut ents = vec![ebits(e)];
            if part >= 3 && e2 != e {
                items.extend(all.iter().map(|t| (*t, e2)));
                ents.push(ebits(e2));
            }
            let b = DynBundle::new(&items);
            issued(sh, run, seq, cmd, RAct::EwRemove { ew: n, inst, ents, bundle: b.resolved() });
            q_pre(c, sh, cmd);
            q_tables(c, sh, cmd, 0);
            match wr {
                Some(wr) => {
                    if n == 0 {
                        wr.2.remove(c, b);
                    } else {
                        wr.3.remove(c, b);
                    }
                }
                None => c.queue(move |w: &mut World| do_ew_remove(w, n, b)),
            }
            q_tables(c, sh, cmd, 1);
            q_post(c, sh, cmd);
        }
        Act::Poll => {
            issued(sh, run, seq, cmd, RAct::Poll);
            q_pre(c, sh, cmd);
            c.queue(|w: &mut World| schedule_removal_and_despawn_reactors(w));
            q_post(c, sh, cmd);
        }
        Act::Gc => {
            issued(sh, run, seq, cmd, RAct::Gc);
            q_pre(c, sh, cmd);
            c.queue(|w: &mut World| garbage_collect_entities(w));
            q_post(c, sh, cmd);
        }
    }
}

/// Publishes a freshly created system (and its token) to other bodies. Queued right after the creating commands.
fn q_publish(
    c: &mut Commands,
    sh: &Arc<Shared>,
    cmd: CmdId,
    inst: Inst,
    tok: Option<RevokeToken>,
    bundle: Option<DynBundle>,
    discover: bool,
) {
    let sh = sh.clone();
    c.queue(move |w: &mut World| {
        if discover {
            // `ReactCommands::on` does not tell which entity it spawned: it is the only system-command entity the
            // harness does not know yet (every creation is followed immediately by its own publish command).
            let known: Vec<Entity> = lk(&sh.st).systems.iter().map(|s| *s.cmd).collect();
            let unknown: Vec<Entity> = hooks::system_command_entities(w).into_iter().filter(|e| !known.contains(e)).collect();
            let (kind, flavour, script) = {
                let st = lk(&sh.st);
                (st.systems[inst].kind, st.systems[inst].flavour, st.systems[inst].script)
            };
            if unknown.len() == 1 {
                lk(&sh.st).systems[inst].cmd = SystemCommand(unknown[0]);
                sh.push(Ev::SysCreated { inst, ent: ebits(unknown[0]), kind, flavour, script });
            } else if unknown.is_empty() {
                // The reactor is already gone: a ref-counted reactor without an effective trigger may be collected as soon
                // as its registration has been applied (C07 only says "by the first collection"). It is recorded as an
                // instance that was never seen alive; the lifetime and dispatch monitors judge whether that was right.
                sh.push(Ev::SysCreated { inst, ent: u64::MAX, kind, flavour, script });
            } else {
                panic!("harness assumption [none]: ReactCommands::on left {} unknown system-command entities (expected at most 1) for instance {inst}", unknown.len());
            }
        }
        let note = {
            let mut st = lk(&sh.st);
            st.published.push(inst);
            let token = tok.map(|t| {
                st.tokens.push((t, inst));
                st.tokens.len() - 1
            });
            let alive = bundle
                .map(|b| b.items().iter().map(|(_, e)| *e == Entity::PLACEHOLDER || w.get_entity(*e).is_ok()).collect())
                .unwrap_or_default();
            let sys_alive = w.get_entity(*st.systems[inst].cmd).is_ok();
            Note::Registered { inst, alive, token, sys_alive }
        };
        applied(&sh, cmd, note);
    });
}

fn probe_fn(In(cmd): In<CmdId>, mut r: Readers, sh: Res<ShRes>) {
    let (obs, held) = sample(&mut r);
    sh.0.push(Ev::ProbeObs { cmd, obs });
    drop(held);
}

pub fn do_remove(w: &mut World, sh: &Arc<Shared>, cmd: CmdId, e: Entity, comp: u8) {
    let mut had = false;
    if let Ok(mut em) = w.get_entity_mut(e) {
        if comp == 0 {
            had = em.contains::<React<Rc<0>>>();
            em.remove::<React<Rc<0>>>();
        } else {
            had = em.contains::<React<Rc<1>>>();
            em.remove::<React<Rc<1>>>();
        }
    }
    applied(sh, cmd, Note::Removed { ent: ebits(e), comp, had });
}

pub fn do_despawn_ent(w: &mut World, sh: &Arc<Shared>, cmd: CmdId, e: Entity) {
    // the despawn is recursive: log every entity of the subtree (children first) before it goes
    fn collect(w: &World, e: Entity, out: &mut Vec<Entity>) {
        if let Some(ch) = w.get::<Children>(e) {
            for c in ch.iter() {
                collect(w, *c, out);
            }
        }
        out.push(e);
    }
    let mut victims = vec![];
    if w.get_entity(e).is_ok() {
        collect(w, e, &mut victims);
    }
    let mut notes = vec![];
    for v in victims.iter() {
        let had = [w.get::<React<Rc<0>>>(*v).is_some(), w.get::<React<Rc<1>>>(*v).is_some()];
        notes.push(Note::Despawned { ent: ebits(*v), was_alive: true, had });
    }
    if let Ok(em) = w.get_entity_mut(e) {
        em.despawn_recursive();
    } else {
        notes.push(Note::Despawned { ent: ebits(e), was_alive: false, had: [false; NT] });
    }
    for n in notes {
        applied(sh, cmd, n);
    }
}

pub fn do_respawn(w: &mut World, sh: &Arc<Shared>, cmd: CmdId, slot: u8) {
    let mut st = lk(&sh.st);
    let cur = st.ents[st.slot_cur[slot as usize]];
    if w.get_entity(cur).is_ok() || st.ents.len() >= 24 {
        return;
    }
    let e = w.spawn(Tracked).id();
    let idx = st.ents.len();
    st.ents.push(e);
    st.slot_prev[slot as usize] = Some(st.slot_cur[slot as usize]);
    st.slot_cur[slot as usize] = idx;
    drop(st);
    sh.push(Ev::EntRegistered { idx, slot, ent: ebits(e) });
    applied(sh, cmd, Note::Respawned { slot, idx, ent: ebits(e) });
}

pub fn do_despawn_sys(w: &mut World, sh: &Arc<Shared>, cmd: CmdId, inst: Inst, sc: SystemCommand) {
    let was_alive = w.get_entity(*sc).is_ok();
    // Note: logged before the despawn so that the canary drop follows it in the trace.
    applied(sh, cmd, Note::SysDespawned { inst, was_alive });
    if let Ok(em) = w.get_entity_mut(*sc) {
        em.despawn();
    }
}

fn do_wr_add(w: &mut World, n: u8, b: DynBundle) {
    if n == 0 {
        w.syscall(b, |In(b): In<DynBundle>, mut c: Commands, r: Reactor<Wr<0>>| {
            r.add(&mut c, b);
        });
    } else {
        w.syscall(b, |In(b): In<DynBundle>, mut c: Commands, r: Reactor<Wr<1>>| {
            r.add(&mut c, b);
        });
    }
}

fn do_wr_remove(w: &mut World, n: u8, b: DynBundle) {
    if n == 0 {
        w.syscall(b, |In(b): In<DynBundle>, mut c: Commands, r: Reactor<Wr<0>>| {
            r.remove(&mut c, b);
        });
    } else {
        w.syscall(b, |In(b): In<DynBundle>, mut c: Commands, r: Reactor<Wr<1>>| {
            r.remove(&mut c, b);
        });
    }
}

fn do_wr_run(w: &mut World, n: u8) {
    if n == 0 {
        w.syscall((), |mut c: Commands, r: Reactor<Wr<0>>| {
            r.run(&mut c);
        });
    } else {
        w.syscall((), |mut c: Commands, r: Reactor<Wr<1>>| {
            r.run(&mut c);
        });
    }
}

fn do_ew_add(w: &mut World, n: u8, e: Entity, data: u32) {
    if n == 0 {
        w.syscall((e, data), |In((e, d)): In<(Entity, u32)>, mut c: Commands, r: EntityReactor<Ew<0>>| {
            r.add(&mut c, e, d);
        });
    } else {
        w.syscall((e, data), |In((e, d)): In<(Entity, u32)>, mut c: Commands, r: EntityReactor<Ew<1>>| {
            r.add(&mut c, e, d);
        });
    }
}

fn do_ew_remove(w: &mut World, n: u8, b: DynBundle) {
    if n == 0 {
        w.syscall(b, |In(b): In<DynBundle>, mut c: Commands, r: EntityReactor<Ew<0>>| {
            r.remove(&mut c, b);
        });
    } else {
        w.syscall(b, |In(b): In<DynBundle>, mut c: Commands, r: EntityReactor<Ew<1>>| {
            r.remove(&mut c, b);
        });
    }
}

//-------------------------------------------------------------------------------------------------------------------
// World setup

fn convert_hook(ev: hooks::RunnerEvent) -> HookEv {
    use hooks::{AbortReason as A, CommandKind as K, RunnerEvent as R};
    match ev {
        R::Apply { target, kind } => HookEv::Apply {
            target: ebits(target),
            kind: match kind {
                K::System => HKind::System,
                K::SystemEvent { .. } => HKind::SystemEvent,
                K::Resource => HKind::Resource,
                K::EntityInsertion { source } => HKind::Insertion(ebits(source)),
                K::EntityMutation { source } => HKind::Mutation(ebits(source)),
                K::EntityRemoval { source } => HKind::Removal(ebits(source)),
                K::Despawn { source } => HKind::Despawn(ebits(source)),
                K::EntityEvent { target, .. } => HKind::EntityEvent(ebits(target)),
                K::Broadcast { .. } => HKind::Broadcast,
            },
        },
        R::Enter { target, counter } => HookEv::Enter { target: ebits(target), counter },
        R::Abort { target, reason } => HookEv::Abort {
            target: ebits(target),
            reason: match reason {
                A::EntityMissing => HAbort::EntityMissing,
                A::StorageMissing => HAbort::StorageMissing,
                A::CallbackMissingAtRoot => HAbort::CallbackMissingAtRoot,
            },
        },
        R::Postponed { target } => HookEv::Postponed { target: ebits(target) },
        R::RunBegin { target } => HookEv::RunBegin { target: ebits(target) },
        R::RunEnd { target, reinserted } => HookEv::RunEnd { target: ebits(target), reinserted },
        R::Replay { target } => HookEv::Replay { target: ebits(target) },
        R::Discard { target } => HookEv::Discard { target: ebits(target) },
        R::Exit { target } => HookEv::Exit { target: ebits(target) },
    }
}

pub fn take_snap(w: &mut World) -> Snap {
    let s = hooks::snapshot(w);
    let t = s.table_entries;
    Snap {
        syscommand_counter: s.syscommand_counter,
        buffered_len: s.buffered_len,
        prepared_len: s.prepared_len,
        reacting: s.reacting,
        despawn_handle_held: s.despawn_handle_held,
        storages: s.storages,
        storages_without_callback: s.storages_without_callback,
        tables: [
            t.component_insertion,
            t.component_mutation,
            t.component_removal,
            t.resource,
            t.broadcast,
            t.any_entity_event,
            t.despawn,
        ],
        entity_reactor_entries: s.entity_reactor_entries,
        entity_reactor_entities: s.entity_reactor_entities,
        data_entities: s.data_entities,
        system_event_data: hooks::count_system_event_data::<Se<0>>(w) + hooks::count_system_event_data::<Se<1>>(w),
        world_entities: w.entities().len() as usize,
    }
}

fn all_entities(w: &mut World) -> Vec<Entity> {
    w.iter_entities().map(|e| e.id()).collect()
}

fn new_entity_since(w: &mut World, before: &[Entity]) -> Entity {
    let after = all_entities(w);
    *after.iter().find(|e| !before.contains(e)).expect("reactor entity not found")
}

pub struct Harness {
    pub app: App,
    pub sh: Arc<Shared>,
}

pub fn new_shared(prog: &Arc<Program>) -> Arc<Shared> {
    Arc::new(Shared {
        trace: Mutex::new(Vec::with_capacity(1024)),
        st: Mutex::new(St {
            prog: prog.clone(),
            ents: vec![],
            slot_cur: [0; NE],
            slot_prev: [None; NE],
            systems: vec![],
            published: vec![],
            tokens: vec![],
            wr_inst: [0; NT],
            ew_inst: [0; NT],
            probe_inst: 0,
            wr_added: Default::default(),
            frame_acts: [None, None, None],
            last_target: 0,
            fuel: 0,
            next_pay: 1,
            next_run: 1,
            next_cmd: 1,
        }),
    })
}

pub fn make_world(prog: Arc<Program>, sh: Arc<Shared>) -> Harness {
    let mut app = App::new();
    app.add_plugins(ReactPlugin);
    {
        let w = app.world_mut();
        w.insert_react_resource(Rr::<0>(0));
        w.insert_react_resource(Rr::<1>(0));
        w.insert_resource(ShRes(sh.clone()));
        w.register_component_hooks::<Tracked>().on_remove(|w, e, _| {
            let Some(sh) = w.get_resource::<ShRes>().map(|s| s.0.clone()) else { return };
            let had = [w.get::<React<Rc<0>>>(e).is_some(), w.get::<React<Rc<1>>>(e).is_some()];
            sh.push(Ev::EntGone { ent: ebits(e), had });
        });
        // entities
        for slot in 0..NE {
            let e = if slot == 1 { w.spawn((Tracked, Gate)).id() } else { w.spawn(Tracked).id() };
            {
                let mut st = lk(&sh.st);
                st.ents.push(e);
                st.slot_cur[slot] = slot;
            }
            sh.push(Ev::EntRegistered { idx: slot, slot: slot as u8, ent: ebits(e) });
            if let Some(v) = prog.init_comps[slot][0] {
                w.react(|rc| rc.insert(e, Rc::<0>(v)));
            }
            if let Some(v) = prog.init_comps[slot][1] {
                w.react(|rc| rc.insert(e, Rc::<1>(v)));
            }
        }
    }
    // hierarchy: slot 3 is a child of slot 2 (despawning slot 2 despawns both)
    {
        let (p2, p3) = {
            let st = lk(&sh.st);
            (st.ents[2], st.ents[3])
        };
        app.world_mut().entity_mut(p3).set_parent(p2);
    }
    // world reactors, entity world reactors, probe
    let nscripts = prog.scripts.len().max(1);
    let mut add_sys = |app: &mut App, kind: SysKindTag, script: usize| -> Inst {
        let mut pending_post: Option<CmdId> = None;
        let before = all_entities(app.world_mut());
        let inst = lk(&sh.st).systems.len();
        match kind {
            SysKindTag::WorldReactor(0) => {
                app.add_world_reactor(Wr::<0> { sh: sh.clone(), inst });
            }
            SysKindTag::WorldReactor(_) => {
                // starting triggers: registered like a `Reactor::add` issued while the app is built
                let items = lk(&sh.st).items(&prog.wr_start);
                let b = DynBundle::new(&items);
                if items.is_empty() {
                    app.add_world_reactor_with(Wr::<1> { sh: sh.clone(), inst }, b);
                } else {
                    let cmd = new_cmd(&sh);
                    issued(&sh, 0, 0, cmd, RAct::WrAdd { wr: 1, inst, bundle: b.resolved() });
                    direct_pre(app.world_mut(), &sh, cmd);
                    app.add_world_reactor_with(Wr::<1> { sh: sh.clone(), inst }, b);
                    lk(&sh.st).wr_added[1].push(items.clone());
                    // the instance is registered below; the ledger only needs the bracket
                    pending_post = Some(cmd);
                }
            }
            SysKindTag::EntityWorldReactor(0) => {
                app.add_entity_reactor(Ew::<0> { sh: sh.clone(), inst });
            }
            SysKindTag::EntityWorldReactor(_) => {
                app.add_entity_reactor(Ew::<1> { sh: sh.clone(), inst });
            }
            _ => {
                let body = make_body_ord(inst, sh.clone());
                app.world_mut().spawn_system_command(body);
            }
        }
        let e = new_entity_since(app.world_mut(), &before);
        let mut st = lk(&sh.st);
        st.systems.push(SysInfo {
            cmd: SystemCommand(e),
            kind,
            flavour: Flavour::Ord,
            script: script % nscripts,
            mode: Some(Mode::Persistent),
        });
        drop(st);
        sh.push(Ev::SysCreated { inst, ent: ebits(e), kind, flavour: Flavour::Ord, script: script % nscripts });
        if let Some(cmd) = pending_post {
            direct_post(app.world_mut(), &sh, cmd);
        }
        inst
    };
    let wr0 = add_sys(&mut app, SysKindTag::WorldReactor(0), 0);
    let wr1 = add_sys(&mut app, SysKindTag::WorldReactor(1), 1);
    let ew0 = add_sys(&mut app, SysKindTag::EntityWorldReactor(0), 2);
    let ew1 = add_sys(&mut app, SysKindTag::EntityWorldReactor(1), 3);
    let probe = add_sys(&mut app, SysKindTag::Probe, 0);
    {
        let mut st = lk(&sh.st);
        st.wr_inst = [wr0, wr1];
        st.ew_inst = [ew0, ew1];
        st.probe_inst = probe;
    }
    // reactors registered through `App::add_reactor` while the app is built
    for (k, ar) in prog.app_reactors.iter().enumerate() {
        let before = all_entities(app.world_mut());
        let (inst, items) = {
            let st = lk(&sh.st);
            (st.systems.len(), st.items(&ar.bundle))
        };
        if inst >= MAX_INST {
            break;
        }
        let b = DynBundle::new(&items);
        let cmd = new_cmd(&sh);
        let script_idx = ar.script as usize % nscripts;
        issued(
            &sh,
            0,
            k as u32 + 1,
            cmd,
            RAct::Register { inst, mode: Mode::Persistent, once: false, flavour: ar.flavour, script: script_idx, bundle: b.resolved(), form: 2 * N_SHAPES + ar.shape % N_SHAPES },
        );
        direct_pre(app.world_mut(), &sh, cmd);
        let alive: Vec<bool> = items.iter().map(|(_, e)| *e == Entity::PLACEHOLDER || app.world().get_entity(*e).is_ok()).collect();
        with_bundle(&items, ar.shape, AppRegFn { app: &mut app, inst, flavour: ar.flavour, sh: &sh });
        let after = all_entities(app.world_mut());
        let new: Vec<Entity> = after.into_iter().filter(|e| !before.contains(e)).collect();
        if new.len() != 1 {
            // no new system: this registration shares the system (and its state) of an earlier one - C13's business;
            // anything else is something the harness cannot interpret
            let tag = if new.is_empty() { "C13" } else { "none" };
            panic!("harness assumption [{tag}]: App::add_reactor created {} entities (expected exactly 1: the reactor's own system) for app reactor {k}", new.len());
        }
        {
            let mut st = lk(&sh.st);
            st.systems.push(SysInfo { cmd: SystemCommand(new[0]), kind: SysKindTag::Reactor, flavour: ar.flavour, script: script_idx, mode: Some(Mode::Persistent) });
            st.published.push(inst);
        }
        sh.push(Ev::SysCreated { inst, ent: ebits(new[0]), kind: SysKindTag::Reactor, flavour: ar.flavour, script: script_idx });
        applied(&sh, cmd, Note::Registered { inst, alive, token: None, sys_alive: true });
        direct_post(app.world_mut(), &sh, cmd);
    }
    if prog.ops.iter().any(|o| o.entry == Entry::Frame) {
        add_frame_systems(&mut app, prog.frame_order);
    }
    // runner hook
    {
        let sh2 = sh.clone();
        app.world_mut().insert_resource(hooks::RunnerSink(Box::new(move |ev| {
            if let hooks::RunnerEvent::RunBegin { target } = ev {
                lk(&sh2.st).last_target = ebits(target);
            }
            sh2.push(Ev::Hook(convert_hook(ev)));
        })));
    }
    Harness { app, sh }
}

//-------------------------------------------------------------------------------------------------------------------
// App mode: ordinary systems of the `Update` schedule

fn frame_system<const K: usize>(mut c: Commands, mut acc: Access, mut wr: WrAccess, sh: Res<ShRes>) {
    let job = lk(&sh.0.st).frame_acts[K].take();
    let Some((run, seq0, acts)) = job else { return };
    for (i, a) in acts.iter().enumerate() {
        exec_act(&sh.0, run, seq0 + i as u32, a, &mut c, &mut acc, Some(&mut wr));
    }
}

fn add_frame_systems(app: &mut App, order: u8) {
    let (a, b, c) = (frame_system::<0>, frame_system::<1>, frame_system::<2>);
    match order % 6 {
        0 => app.add_systems(Update, (a, b, c).chain()),
        1 => app.add_systems(Update, (a, c, b).chain()),
        2 => app.add_systems(Update, (b, a, c).chain()),
        3 => app.add_systems(Update, (b, c, a).chain()),
        4 => app.add_systems(Update, (c, a, b).chain()),
        _ => app.add_systems(Update, (c, b, a).chain()),
    };
}

//-------------------------------------------------------------------------------------------------------------------
// Driver

fn direct_pre(w: &mut World, sh: &Arc<Shared>, cmd: CmdId) {
    let facts = sample_facts(w, sh);
    sh.push(Ev::Pre { cmd, facts });
}
fn direct_post(w: &mut World, sh: &Arc<Shared>, cmd: CmdId) {
    let facts = sample_facts(w, sh);
    sh.push(Ev::Post { cmd, facts });
}

fn syscall_acts(w: &mut World, sh: &Arc<Shared>, run: RunId, seq0: u32, acts: Vec<Act>) {
    let sh2 = sh.clone();
    w.syscall_once((), move |mut c: Commands, mut acc: Access, mut wr: WrAccess| {
        for (i, a) in acts.iter().enumerate() {
            exec_act(&sh2, run, seq0 + i as u32, a, &mut c, &mut acc, Some(&mut wr));
        }
    });
}

/// Tries to issue `a` through a direct entry point. Returns false if the action has no such form.
fn direct_act(w: &mut World, sh: &Arc<Shared>, run: RunId, seq: u32, a: &Act, entry: Entry) -> bool {
    let pick_run_target = |x: u8| {
        let st = lk(&sh.st);
        st.pick_published(x, |s| !matches!(s.kind, SysKindTag::EntityWorldReactor(_) | SysKindTag::WorldReactor(_)))
            .map(|i| (i, st.systems[i].cmd))
    };
    match (a.clone(), entry) {
        (Act::Run(x), _) => {
            let Some((inst, sc)) = pick_run_target(x) else { return false };
            let cmd = new_cmd(sh);
            issued(sh, run, seq, cmd, RAct::Run { inst });
            direct_pre(w, sh, cmd);
            if entry == Entry::WorldApi {
                sc.apply(w);
            } else {
                w.react(|rc| rc.commands().queue(sc));
            }
            direct_post(w, sh, cmd);
            true
        }
        (Act::SendSe(x, ty), _) => {
            let Some((inst, sc)) = pick_run_target(x) else { return false };
            let cmd = new_cmd(sh);
            let pay = new_pay(sh);
            issued(sh, run, seq, cmd, RAct::SendSe { inst, ty, pay });
            direct_pre(w, sh, cmd);
            match (entry, ty) {
                (Entry::WorldApi, 0) => w.send_system_event(sc, Se::<0> { id: pay, sh: sh.clone() }),
                (Entry::WorldApi, _) => w.send_system_event(sc, Se::<1> { id: pay, sh: sh.clone() }),
                (_, 0) => w.react(|rc| rc.commands().send_system_event(sc, Se::<0> { id: pay, sh: sh.clone() })),
                (_, _) => w.react(|rc| rc.commands().send_system_event(sc, Se::<1> { id: pay, sh: sh.clone() })),
            }
            direct_post(w, sh, cmd);
            true
        }
        (Act::RunEnt(r), Entry::WorldApi) => {
            let e = lk(&sh.st).ent(r);
            let cmd = new_cmd(sh);
            issued(sh, run, seq, cmd, RAct::RunEnt { ent: ebits(e) });
            direct_pre(w, sh, cmd);
            SystemCommand(e).apply(w);
            direct_post(w, sh, cmd);
            true
        }
        (Act::SendSeEnt(r, ty), Entry::WorldApi) => {
            let e = lk(&sh.st).ent(r);
            let cmd = new_cmd(sh);
            let pay = new_pay(sh);
            issued(sh, run, seq, cmd, RAct::SendSeEnt { ent: ebits(e), ty, pay });
            direct_pre(w, sh, cmd);
            if ty == 0 {
                w.send_system_event(SystemCommand(e), Se::<0> { id: pay, sh: sh.clone() });
            } else {
                w.send_system_event(SystemCommand(e), Se::<1> { id: pay, sh: sh.clone() });
            }
            direct_post(w, sh, cmd);
            true
        }
        (Act::Broadcast(ty), _) => {
            let cmd = new_cmd(sh);
            let pay = new_pay(sh);
            issued(sh, run, seq, cmd, RAct::Broadcast { ty, pay });
            direct_pre(w, sh, cmd);
            match (entry, ty) {
                (Entry::WorldApi, 0) => w.broadcast(Bc::<0> { id: pay, sh: sh.clone() }),
                (Entry::WorldApi, _) => w.broadcast(Bc::<1> { id: pay, sh: sh.clone() }),
                (_, 0) => w.react(|rc| rc.broadcast(Bc::<0> { id: pay, sh: sh.clone() })),
                (_, _) => w.react(|rc| rc.broadcast(Bc::<1> { id: pay, sh: sh.clone() })),
            }
            direct_post(w, sh, cmd);
            true
        }
        (Act::EntityEv(r, ty), _) => {
            let e = lk(&sh.st).ent(r);
            let cmd = new_cmd(sh);
            let pay = new_pay(sh);
            issued(sh, run, seq, cmd, RAct::EntityEv { ent: ebits(e), ty, pay });
            direct_pre(w, sh, cmd);
            match (entry, ty) {
                (Entry::WorldApi, 0) => w.entity_event(e, Ee::<0> { id: pay, sh: sh.clone() }),
                (Entry::WorldApi, _) => w.entity_event(e, Ee::<1> { id: pay, sh: sh.clone() }),
                (_, 0) => w.react(|rc| rc.entity_event(e, Ee::<0> { id: pay, sh: sh.clone() })),
                (_, _) => w.react(|rc| rc.entity_event(e, Ee::<1> { id: pay, sh: sh.clone() })),
            }
            direct_post(w, sh, cmd);
            true
        }
        (Act::Insert(r, comp, val), Entry::React) => {
            let e = lk(&sh.st).ent(r);
            let cmd = new_cmd(sh);
            let queued = w.get_entity(e).is_ok();
            issued(sh, run, seq, cmd, RAct::Insert { ent: ebits(e), comp, val, queued });
            direct_pre(w, sh, cmd);
            if comp == 0 {
                w.react(|rc| rc.insert(e, Rc::<0>(val)));
            } else {
                w.react(|rc| rc.insert(e, Rc::<1>(val)));
            }
            direct_post(w, sh, cmd);
            true
        }
        (Act::TriggerMutation(r, comp), Entry::WorldApi) => {
            let e = lk(&sh.st).ent(r);
            let cmd = new_cmd(sh);
            issued(sh, run, seq, cmd, RAct::TriggerMutation { ent: ebits(e), comp });
            direct_pre(w, sh, cmd);
            if comp == 0 {
                React::<Rc<0>>::trigger_mutation(e, w);
            } else {
                React::<Rc<1>>::trigger_mutation(e, w);
            }
            direct_post(w, sh, cmd);
            true
        }
        (Act::ResTrigger(ty), _) => {
            let cmd = new_cmd(sh);
            issued(sh, run, seq, cmd, RAct::ResTrigger { ty });
            direct_pre(w, sh, cmd);
            match (entry, ty) {
                (Entry::WorldApi, 0) => w.trigger_resource_mutation::<Rr<0>>(),
                (Entry::WorldApi, _) => w.trigger_resource_mutation::<Rr<1>>(),
                (_, 0) => w.react(|rc| rc.trigger_resource_mutation::<Rr<0>>()),
                (_, _) => w.react(|rc| rc.trigger_resource_mutation::<Rr<1>>()),
            }
            direct_post(w, sh, cmd);
            true
        }
        (Act::ResAccess(ty, How::GetNoreact, val), Entry::WorldApi) => {
            let cmd = new_cmd(sh);
            let old = if ty == 0 { w.react_resource::<Rr<0>>().0 } else { w.react_resource::<Rr<1>>().0 };
            issued(
                sh,
                run,
                seq,
                cmd,
                RAct::ResAccess { ty, how: MutHow::GetNoreact, old, new: val, after: val, ret_some: false, triggers: false },
            );
            direct_pre(w, sh, cmd);
            if ty == 0 {
                w.react_resource_mut_noreact::<Rr<0>>().0 = val;
            } else {
                w.react_resource_mut_noreact::<Rr<1>>().0 = val;
            }
            direct_post(w, sh, cmd);
            true
        }
        (Act::Remove(r, comp), Entry::WorldApi) => {
            let e = lk(&sh.st).ent(r);
            let cmd = new_cmd(sh);
            issued(sh, run, seq, cmd, RAct::Remove { ent: ebits(e), comp });
            direct_pre(w, sh, cmd);
            do_remove(w, sh, cmd, e, comp);
            direct_post(w, sh, cmd);
            true
        }
        (Act::DespawnEnt(r), Entry::WorldApi) => {
            let e = lk(&sh.st).ent(r);
            let cmd = new_cmd(sh);
            issued(sh, run, seq, cmd, RAct::DespawnEnt { ent: ebits(e) });
            direct_pre(w, sh, cmd);
            do_despawn_ent(w, sh, cmd, e);
            direct_post(w, sh, cmd);
            true
        }
        (Act::Revoke(x), Entry::React) => {
            let t = {
                let st = lk(&sh.st);
                if st.tokens.is_empty() {
                    None
                } else {
                    let i = (x as usize) % st.tokens.len();
                    Some((i, st.tokens[i].0.clone()))
                }
            };
            let Some((token, tok)) = t else { return false };
            let cmd = new_cmd(sh);
            issued(sh, run, seq, cmd, RAct::Revoke { token });
            direct_pre(w, sh, cmd);
            w.react(|rc| rc.revoke(tok));
            direct_post(w, sh, cmd);
            true
        }
        (Act::Probe(false), _) => {
            let sc = {
                let st = lk(&sh.st);
                st.systems[st.probe_inst].cmd
            };
            let cmd = new_cmd(sh);
            issued(sh, run, seq, cmd, RAct::Probe { via_syscall: false });
            direct_pre(w, sh, cmd);
            sc.apply(w);
            direct_post(w, sh, cmd);
            true
        }
        (Act::Poll, _) => {
            let cmd = new_cmd(sh);
            issued(sh, run, seq, cmd, RAct::Poll);
            direct_pre(w, sh, cmd);
            schedule_removal_and_despawn_reactors(w);
            direct_post(w, sh, cmd);
            true
        }
        (Act::Gc, _) => {
            let cmd = new_cmd(sh);
            issued(sh, run, seq, cmd, RAct::Gc);
            direct_pre(w, sh, cmd);
            garbage_collect_entities(w);
            direct_post(w, sh, cmd);
            true
        }
        _ => false,
    }
}

pub const POLL_FUEL: u32 = 20;

/// Runs one top-level op followed by the harness's poll phase. Panics propagate to the caller.
pub fn run_op(h: &mut Harness, op_idx: usize, op: &Op) {
    let sh = h.sh.clone();
    if op.entry == Entry::Frame {
        run_frame(h, op_idx, op);
        return;
    }
    let w = h.app.world_mut();
    let run = {
        let mut st = lk(&sh.st);
        st.fuel = st.prog.fuel;
        let r = st.next_run;
        st.next_run += 1;
        r
    };
    sh.push(Ev::OpStart { op: op_idx, entry: op.entry, run });
    match op.entry {
        Entry::Syscall | Entry::Frame => syscall_acts(w, &sh, run, 0, op.acts.clone()),
        entry => {
            for (i, a) in op.acts.iter().enumerate() {
                if !direct_act(w, &sh, run, i as u32, a, entry) {
                    syscall_acts(w, &sh, run, i as u32, vec![a.clone()]);
                }
            }
        }
    }
    let facts = sample_facts(w, &sh);
    sh.push(Ev::OpEnd { op: op_idx, facts });
    let snap = take_snap(w);
    sh.push(Ev::Snapshot { op: op_idx, phase: 0, snap });
    // poll phase: what `Last` does in an App
    lk(&sh.st).fuel = POLL_FUEL;
    sh.push(Ev::PollStart { op: op_idx });
    garbage_collect_entities(w);
    schedule_removal_and_despawn_reactors(w);
    garbage_collect_entities(w);
    sh.push(Ev::PollEnd { op: op_idx });
    let snap = take_snap(w);
    sh.push(Ev::Snapshot { op: op_idx, phase: 1, snap: snap.clone() });
    let facts = sample_facts(w, &sh);
    let ew_local = {
        let st = lk(&sh.st);
        let mut v = vec![];
        for e in st.ents.iter() {
            v.push((0u8, ebits(*e), hooks::has_entity_world_local::<Ew<0>>(w, *e)));
            v.push((1u8, ebits(*e), hooks::has_entity_world_local::<Ew<1>>(w, *e)));
        }
        v
    };
    sh.push(Ev::Quiescent { op: op_idx, snap, facts, ew_local });
}

/// One `App::update()`: the op's actions are issued by three ordinary `Update` systems; garbage collection and the
/// polling of removals / despawns happen in `Last`, as the plugin schedules them.
fn run_frame(h: &mut Harness, op_idx: usize, op: &Op) {
    let sh = h.sh.clone();
    let run0 = {
        let mut st = lk(&sh.st);
        st.fuel = st.prog.fuel;
        let r = st.next_run;
        st.next_run += 3;
        let mut split: [Vec<Act>; 3] = Default::default();
        for (i, a) in op.acts.iter().enumerate() {
            split[i % 3].push(a.clone());
        }
        for k in 0..3 {
            st.frame_acts[k] = Some((r + k as u32, (k * 100) as u32, std::mem::take(&mut split[k])));
        }
        r
    };
    sh.push(Ev::OpStart { op: op_idx, entry: op.entry, run: run0 });
    h.app.update();
    let w = h.app.world_mut();
    let facts = sample_facts(w, &sh);
    sh.push(Ev::OpEnd { op: op_idx, facts });
    let snap = take_snap(w);
    sh.push(Ev::Snapshot { op: op_idx, phase: 0, snap: snap.clone() });
    sh.push(Ev::PollStart { op: op_idx });
    sh.push(Ev::PollEnd { op: op_idx });
    sh.push(Ev::Snapshot { op: op_idx, phase: 1, snap: snap.clone() });
    let facts = sample_facts(w, &sh);
    let ew_local = {
        let st = lk(&sh.st);
        let mut v = vec![];
        for e in st.ents.iter() {
            v.push((0u8, ebits(*e), hooks::has_entity_world_local::<Ew<0>>(w, *e)));
            v.push((1u8, ebits(*e), hooks::has_entity_world_local::<Ew<1>>(w, *e)));
        }
        v
    };
    sh.push(Ev::Quiescent { op: op_idx, snap, facts, ew_local });
}

/// Result of executing a program.
pub struct Execution {
    pub trace: Vec<Ev>,
    pub panicked: Option<String>,
}

fn panic_msg(p: &Box<dyn std::any::Any + Send>) -> String {
    if let Some(s) = p.downcast_ref::<&str>() {
        s.to_string()
    } else if let Some(s) = p.downcast_ref::<String>() {
        s.clone()
    } else {
        "<non-string panic>".to_string()
    }
}

pub fn execute(prog: &Arc<Program>) -> Execution {
    let sh0 = new_shared(prog);
    let built = catch_unwind(AssertUnwindSafe(|| make_world(prog.clone(), sh0.clone())));
    let mut h = match built {
        Ok(h) => h,
        Err(p) => {
            // registration while the app is built panicked: an observation like any other panic
            let msg = panic_msg(&p);
            sh0.push(Ev::Panic { op: 0, msg: msg.clone() });
            sh0.push(Ev::End);
            let trace = std::mem::take(&mut *lk(&sh0.trace));
            return Execution { trace, panicked: Some(msg) };
        }
    };
    let mut panicked = None;
    for (i, op) in prog.ops.iter().enumerate() {
        let res = catch_unwind(AssertUnwindSafe(|| run_op(&mut h, i, op)));
        if let Err(p) = res {
            let msg = if let Some(s) = p.downcast_ref::<&str>() {
                s.to_string()
            } else if let Some(s) = p.downcast_ref::<String>() {
                s.clone()
            } else {
                "<non-string panic>".to_string()
            };
            h.sh.push(Ev::Panic { op: i, msg: msg.clone() });
            panicked = Some(msg);
            break;
        }
    }
    let sh = h.sh.clone();
    sh.push(Ev::End);
    if panicked.is_some() {
        // The world may be in an inconsistent state: leak it instead of running destructors over it.
        std::mem::forget(h);
    } else {
        drop(h);
    }
    let trace = std::mem::take(&mut *lk(&sh.trace));
    Execution { trace, panicked }
}
