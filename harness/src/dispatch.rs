//! Expected deliveries: for every command that applies a trigger or addresses a system, which instances must run
//! (from the registration ledger and sampled facts), and what was observed.

use std::collections::{BTreeMap, HashMap};

use crate::analysis::*;
use crate::trace::*;
use crate::types::*;

#[derive(Clone, Copy, Debug, PartialEq, Eq, Hash, PartialOrd, Ord)]
pub enum Key {
    Pay(PayId),
    Ins(u8, u64),
    Mut(u8, u64),
    Empty,
    /// Removal / despawn reactions (polled, C08).
    Rem(u8, u64),
    Desp(u64),
}

#[derive(Clone, Copy, Debug, PartialEq, Eq, Hash)]
pub enum DKind {
    Broadcast,
    EntityEvent,
    SystemEvent,
    Insertion,
    Mutation,
    Resource,
    Run,
}

#[derive(Clone, Debug)]
pub struct Exp {
    pub inst: Inst,
    /// Lower bound of matching registrations (duplicates excluded, tolerance 6/7).
    pub certain: u32,
    /// Upper bound.
    pub total: u32,
    /// A matching registration of this instance was revoked before this delivery.
    pub revoked_before: bool,
    /// One-off reactor that has already started its only run: still scheduled, never runs again.
    pub spent: bool,
}

#[derive(Clone, Debug)]
pub struct Delivery {
    pub cmd: usize,
    pub pre: usize,
    pub post: usize,
    pub key: Key,
    pub kind: DKind,
    pub exp: Vec<Exp>,
    /// Target entity of the trigger was dead when applied.
    pub target_dead: bool,
    /// Number of near-miss registrations (same kind, other type/entity) alive at that instant.
    pub near_miss: u32,
    /// A registration sharing this delivery's key was revoked earlier.
    pub key_revoked_before: bool,
}

pub fn keys_of_obs(obs: &Obs) -> Vec<Key> {
    let seen = obs.seen();
    if seen.is_empty() {
        return vec![Key::Empty];
    }
    seen.iter()
        .map(|s| match *s {
            Seen::Bc(_, id) | Seen::Ee(_, _, id) | Seen::Se(_, id) => Key::Pay(id),
            Seen::Ins(c, e) => Key::Ins(c, e),
            Seen::Mut(c, e) => Key::Mut(c, e),
            Seen::Rem(c, e) => Key::Rem(c, e),
            Seen::Desp(e) => Key::Desp(e),
        })
        .collect()
}

fn same_kind(a: &RTrig, b: &RTrig) -> bool {
    std::mem::discriminant(a) == std::mem::discriminant(b)
}

pub fn deliveries(a: &Analysis) -> Vec<Delivery> {
    let mut out = vec![];
    for (ci, c) in a.cmds.iter().enumerate() {
        let (Some(pre), Some(post)) = (c.pre, c.post) else { continue };
        let alive = |e: u64| a.ent_alive_at(pre, e) == Some(true);
        let sys_alive = |i: Inst| a.sys_alive_at(pre, i) == Some(true);
        // (kind, key, matching triggers [(trig, counts_as_certain)], direct target, target_dead)
        let mut direct: Option<Inst> = None;
        let mut target_dead = false;
        let (kind, key, trigs): (DKind, Key, Vec<(RTrig, bool)>) = match &c.act {
            RAct::Broadcast { ty, pay } => (DKind::Broadcast, Key::Pay(*pay), vec![(RTrig::Bc(*ty), true)]),
            RAct::EntityEv { ent, ty, pay } => {
                if alive(*ent) {
                    (DKind::EntityEvent, Key::Pay(*pay), vec![(RTrig::Ee(*ent, *ty), true), (RTrig::AnyEe(*ty), true)])
                } else {
                    target_dead = true;
                    (DKind::EntityEvent, Key::Pay(*pay), vec![])
                }
            }
            RAct::SendSe { inst, pay, .. } => {
                direct = Some(*inst);
                (DKind::SystemEvent, Key::Pay(*pay), vec![])
            }
            RAct::SendSeEnt { pay, .. } => {
                // addressed to an entity that is not a system: nobody may run, the payload must be released
                target_dead = true;
                (DKind::SystemEvent, Key::Pay(*pay), vec![])
            }
            RAct::RunEnt { .. } => {
                target_dead = true;
                (DKind::Run, Key::Empty, vec![])
            }
            RAct::Run { inst } | RAct::WrRun { inst, .. } => {
                direct = Some(*inst);
                (DKind::Run, Key::Empty, vec![])
            }
            RAct::Probe { via_syscall: false } => {
                direct = a.insts.iter().position(|i| i.kind == SysKindTag::Probe);
                (DKind::Run, Key::Empty, vec![])
            }
            RAct::Insert { ent, comp, queued, .. } => {
                if *queued && alive(*ent) {
                    (
                        DKind::Insertion,
                        Key::Ins(*comp, *ent),
                        vec![(RTrig::EIns(*ent, *comp), true), (RTrig::Ins(*comp), true)],
                    )
                } else {
                    target_dead = true;
                    (DKind::Insertion, Key::Ins(*comp, *ent), vec![])
                }
            }
            RAct::Access { ent, comp, triggers: true, .. } | RAct::TriggerMutation { ent, comp } => {
                if alive(*ent) {
                    (
                        DKind::Mutation,
                        Key::Mut(*comp, *ent),
                        vec![(RTrig::EMut(*ent, *comp), true), (RTrig::Mut(*comp), true)],
                    )
                } else {
                    // tolerance 7 (narrowed): an *accessor* call that found the component did mutate it, and C14 gives
                    // every such call exactly one trigger - type-wide reactors must still be told, even though the
                    // entity was despawned before the trigger was applied. An explicit `trigger_mutation` naming an
                    // entity that is already gone stays unconstrained (C01 says run, C18 says don't).
                    target_dead = true;
                    let performed = matches!(&c.act, RAct::Access { hit: true, .. });
                    (DKind::Mutation, Key::Mut(*comp, *ent), vec![(RTrig::Mut(*comp), performed)])
                }
            }
            RAct::ResAccess { ty, triggers: true, .. } | RAct::ResTrigger { ty } => {
                (DKind::Resource, Key::Empty, vec![(RTrig::Res(*ty), true)])
            }
            _ => continue,
        };
        let mut by_inst: BTreeMap<Inst, Exp> = BTreeMap::new();
        if let Some(i) = direct {
            if sys_alive(i) {
                by_inst.insert(i, Exp { inst: i, certain: 1, total: 1, revoked_before: false, spent: false });
            } else {
                target_dead = true;
            }
        }
        let mut near_miss = 0;
        let mut key_revoked_before = false;
        for r in a.regs.iter() {
            let matched = trigs.iter().find(|(t, _)| *t == r.trig);
            if let Some((_, certain_kind)) = matched {
                if r.live_at(pre) {
                    if !sys_alive(r.inst) {
                        continue;
                    }
                    let e = by_inst.entry(r.inst).or_insert(Exp { inst: r.inst, certain: 0, total: 0, revoked_before: false, spent: false });
                    e.total += 1;
                    if r.certain && *certain_kind {
                        e.certain += 1;
                    }
                } else if r.effective && r.start < pre && matches!(r.end, Some((p, EndWhy::Revoked)) if p < pre) {
                    key_revoked_before = true;
                    let e = by_inst.entry(r.inst).or_insert(Exp { inst: r.inst, certain: 0, total: 0, revoked_before: false, spent: false });
                    e.revoked_before = true;
                }
            } else if r.live_at(pre) && trigs.iter().any(|(t, _)| same_kind(t, &r.trig)) {
                near_miss += 1;
            }
        }
        for e in by_inst.values_mut() {
            if a.insts.get(e.inst).map(|i| i.kind == SysKindTag::Once).unwrap_or(false)
                && a.runs.iter().any(|r| r.inst == e.inst && r.pos < pre)
            {
                e.spent = true;
            }
        }
        out.push(Delivery {
            cmd: ci,
            pre,
            post,
            key,
            kind,
            exp: by_inst.into_values().collect(),
            target_dead,
            near_miss,
            key_revoked_before,
        });
    }
    out
}

/// Runs that read the payload of this delivery, per instance.
pub fn observed_payload(a: &Analysis, pay: PayId) -> HashMap<Inst, u32> {
    let mut m = HashMap::new();
    if let Some(pi) = a.pay_idx.get(&pay) {
        for (ri, _) in a.pays[*pi].reads.iter() {
            // count each run once even if it saw the id through two readers
            *m.entry(a.runs[*ri].inst).or_insert(0) += 1;
        }
    }
    m
}

/// A run that read *nothing at all* although the runner hook says it was started in-line, inside the bracket of command
/// `cmd`, for an event of the kind of `key` (and, for insertions / mutations, on that entity). What such a run should have
/// read is C03's business; for the scheduling questions (C01, C06, C09, C14, C15, C16) it is the run that `cmd` caused -
/// otherwise a reader defect would be reported as "reactor not scheduled" by checks whose property holds.
/// Never true on code whose readers work: a run started for an event reads that event.
pub fn blind_inline_run(a: &Analysis, r: &RunRec, cmd: usize, key: Key) -> bool {
    if r.replay || r.parent != Some(cmd) || !r.obs.seen().is_empty() {
        return false;
    }
    let Some(h) = r.hook_enter.filter(|h| *h > 0) else { return false };
    let Ev::Hook(HookEv::Apply { kind, .. }) = &a.tr[h - 1] else { return false };
    match (kind, key) {
        (HKind::Insertion(e), Key::Ins(_, k)) => *e == k,
        (HKind::Mutation(e), Key::Mut(_, k)) => *e == k,
        (HKind::Broadcast | HKind::EntityEvent(_) | HKind::SystemEvent, Key::Pay(_)) => true,
        _ => false,
    }
}

/// Keys under which a run is counted for scheduling questions: what it read, or - for a run that read nothing although
/// the runner hooks say it was started in-line for an event - the key of the delivery whose bracket contains the `Apply`
/// hook of its command.
pub fn sched_keys(a: &Analysis, dels: &[Delivery], r: &RunRec) -> Vec<Key> {
    let ks = keys_of_obs(&r.obs);
    if !(ks.len() == 1 && ks[0] == Key::Empty) {
        return ks;
    }
    let Some(h) = r.hook_enter.filter(|h| *h > 0) else { return ks };
    // (a replayed run is not traced back to its command: the order in which the postponed commands of one system are
    // replayed is not fixed - tolerance 2 - so a blind replayed run stays unidentified)
    let origin = match &a.tr[h - 1] {
        Ev::Hook(HookEv::Apply { .. }) if !r.replay => Some(h - 1),
        _ => None,
    };
    let Some(o) = origin else { return ks };
    let Ev::Hook(HookEv::Apply { kind, .. }) = &a.tr[o] else { return ks };
    if matches!(kind, HKind::System | HKind::Resource | HKind::Removal(_) | HKind::Despawn(_)) {
        return ks;
    }
    let Some(d) = dels.iter().filter(|d| d.pre < o && o < d.post).max_by_key(|d| d.pre) else { return ks };
    let agrees = match (kind, d.key) {
        (HKind::Insertion(e), Key::Ins(_, k)) => *e == k,
        (HKind::Mutation(e), Key::Mut(_, k)) => *e == k,
        (HKind::Broadcast | HKind::EntityEvent(_) | HKind::SystemEvent, Key::Pay(_)) => true,
        _ => false,
    };
    if agrees {
        vec![d.key]
    } else {
        ks
    }
}

/// Direct-child runs of the bracket of `d` whose observation carries the delivery's key, per instance.
pub fn observed_inline(a: &Analysis, d: &Delivery) -> HashMap<Inst, u32> {
    let mut m = HashMap::new();
    for r in a.runs_in(d.pre, d.post).iter() {
        if r.pos > d.pre && r.pos < d.post && r.parent == Some(d.cmd) && !r.replay && (keys_of_obs(&r.obs).contains(&d.key) || blind_inline_run(a, r, d.cmd, d.key)) {
            *m.entry(r.inst).or_insert(0) += 1;
        }
    }
    m
}
