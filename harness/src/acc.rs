//! C14, accessor-table stage: every public accessor form of `React`, `Reactive`, `ReactiveMut`, `ReactRes`,
//! `ReactResMut`, `ReactResWorldExt`, `ReactResCommandsExt` and `ReactCommands::insert` is called in seeded random
//! sequences on a small dedicated world; after every call the number of reactions it caused (counted by persistent
//! type-wide and entity-scoped reactors that also record the entity they were told about), the stored value and the
//! returned value are compared with the documented table. The tree engine covers the accessors the harness bodies
//! use (`ReactiveMut::{get, get_mut, get_noreact, set_if_neq}`, `ReactResMut`, `ReactCommands::insert`) inside
//! reaction trees; this stage covers the remaining forms (`single*`, `Reactive`, `ReactRes`, direct `React<C>` access
//! through a query, the world-level resource accessors, resource re-insertion) one call at a time.

use bevy::prelude::*;
use bevy_cobweb::prelude::*;
use serde::{Deserialize, Serialize};
use std::collections::BTreeSet;
use std::sync::{Arc, Mutex};

use crate::program::Rng;
use crate::types::lk;

/// Component that exists on exactly one entity (`single*` accessors need that).
#[derive(PartialEq, Clone, Copy, Debug)]
struct V(u32);
impl ReactComponent for V {}

#[derive(PartialEq, Clone, Copy, Debug, Default)]
struct R(u32);
impl ReactResource for R {}

#[derive(Clone, Copy, Debug, PartialEq, Eq, Hash, PartialOrd, Ord, Serialize, Deserialize)]
pub enum AccOp {
    // reads (never trigger)
    ReactiveGet { other: bool },
    ReactiveSingle,
    ReactiveMutGet { other: bool },
    ReactiveMutSingle,
    QueryGet,
    QueryDeref,
    // reacting mutable access (exactly one trigger per call that finds the component)
    GetMut { other: bool, val: u32 },
    SingleMut { val: u32 },
    QueryGetMut { val: u32 },
    TriggerMutationWorld,
    // explicitly non-reacting mutable access
    GetNoreact { other: bool, val: u32 },
    SingleNoreact { val: u32 },
    QueryGetNoreact { val: u32 },
    // set-if-different
    SetIfNeq { other: bool, val: u32 },
    SetSingleIfNotEq { val: u32 },
    QuerySetIfNeq { val: u32 },
    // insertion over the existing component / on a despawned entity
    Insert { dead: bool, val: u32 },
    // resource
    ResDeref,
    ResMutDeref,
    ResGetMut { val: u32 },
    ResGetNoreact { val: u32 },
    ResSetIfNeq { val: u32 },
    WorldReactResource,
    WorldGetReactResource,
    WorldMutNoreact { val: u32 },
    WorldGetNoreact { val: u32 },
    WorldGetOrInsertWith { val: u32 },
    WorldContains,
    WorldTriggerResource,
    RcTriggerResource,
    WorldInsertResource { val: u32 },
    CommandsInsertResource { val: u32 },
    WorldRemoveAndReinsert { val: u32 },
    /// `init_react_resource` while the resource exists: nothing changes (World / Commands form)
    WorldInitExisting,
    CommandsInitExisting,
    /// `Commands::remove_react_resource` followed by `Commands::init_react_resource` in one system: the default value
    CommandsRemoveAndInit,
}

#[derive(Default, Clone, Debug, PartialEq, Eq)]
struct Counts {
    /// type-wide mutation reactor: entities it was told about
    mutation: Vec<u64>,
    /// entity-scoped mutation reactor on the owner
    entity_mutation: Vec<u64>,
    insertion: Vec<u64>,
    entity_insertion: Vec<u64>,
    resource: u32,
}

#[derive(Resource, Clone)]
struct Tally(Arc<Mutex<Counts>>);

#[derive(Clone, Debug, PartialEq, Eq)]
struct Outcome {
    /// value returned by the call, if it returns one (`Some(None)`: returned "nothing")
    ret: Option<Option<u32>>,
    /// entity returned by the `single*` forms
    ret_entity: Option<u64>,
}

fn gen_op(r: &mut Rng) -> AccOp {
    let val = r.below(3) as u32;
    let other = r.chance(25);
    match r.below(36) {
        0 => AccOp::ReactiveGet { other },
        1 => AccOp::ReactiveSingle,
        2 => AccOp::ReactiveMutGet { other },
        3 => AccOp::ReactiveMutSingle,
        4 => AccOp::QueryGet,
        5 => AccOp::QueryDeref,
        6 => AccOp::GetMut { other, val },
        7 => AccOp::SingleMut { val },
        8 => AccOp::QueryGetMut { val },
        9 => AccOp::TriggerMutationWorld,
        10 => AccOp::GetNoreact { other, val },
        11 => AccOp::SingleNoreact { val },
        12 => AccOp::QueryGetNoreact { val },
        13 => AccOp::SetIfNeq { other, val },
        14 => AccOp::SetSingleIfNotEq { val },
        15 => AccOp::QuerySetIfNeq { val },
        16 => AccOp::Insert { dead: r.chance(30), val },
        17 => AccOp::ResDeref,
        18 => AccOp::ResMutDeref,
        19 => AccOp::ResGetMut { val },
        20 => AccOp::ResGetNoreact { val },
        21 => AccOp::ResSetIfNeq { val },
        22 => AccOp::WorldReactResource,
        23 => AccOp::WorldGetReactResource,
        24 => AccOp::WorldMutNoreact { val },
        25 => AccOp::WorldGetNoreact { val },
        26 => AccOp::WorldGetOrInsertWith { val },
        27 => AccOp::WorldContains,
        28 => AccOp::WorldTriggerResource,
        29 => AccOp::RcTriggerResource,
        30 => AccOp::WorldInsertResource { val },
        31 => AccOp::CommandsInsertResource { val },
        32 => AccOp::WorldRemoveAndReinsert { val },
        33 => AccOp::WorldInitExisting,
        34 => AccOp::CommandsInitExisting,
        _ => AccOp::CommandsRemoveAndInit,
    }
}

pub fn gen_sequence(seed: u64) -> Vec<AccOp> {
    let mut r = Rng::new(seed ^ 0xACC0);
    let n = r.range(5, 30);
    (0..n).map(|_| gen_op(&mut r)).collect()
}

struct Ents {
    owner: Entity,
    other: Entity,
    dead: Entity,
}

/// Performs one accessor call; returns what it returned.
fn perform(w: &mut World, e: &Ents, op: AccOp) -> Outcome {
    let pick = |other: bool| if other { e.other } else { e.owner };
    let mut out = Outcome { ret: None, ret_entity: None };
    match op {
        AccOp::ReactiveGet { other } => {
            let v = w.syscall_once(pick(other), |In(t): In<Entity>, q: Reactive<V>| q.get(t).ok().map(|v| v.0));
            out.ret = Some(v);
        }
        AccOp::ReactiveSingle => {
            let (en, v) = w.syscall_once((), |q: Reactive<V>| {
                let (en, v) = q.single();
                (en, v.0)
            });
            out.ret = Some(Some(v));
            out.ret_entity = Some(en.to_bits());
        }
        AccOp::ReactiveMutGet { other } => {
            let v = w.syscall_once(pick(other), |In(t): In<Entity>, q: ReactiveMut<V>| q.get(t).ok().map(|v| v.0));
            out.ret = Some(v);
        }
        AccOp::ReactiveMutSingle => {
            let (en, v) = w.syscall_once((), |q: ReactiveMut<V>| {
                let (en, v) = q.single();
                (en, v.0)
            });
            out.ret = Some(Some(v));
            out.ret_entity = Some(en.to_bits());
        }
        AccOp::QueryGet => {
            let v = w.syscall_once(e.owner, |In(t): In<Entity>, q: Query<&React<V>>| q.get(t).ok().map(|r| r.get().0));
            out.ret = Some(v);
        }
        AccOp::QueryDeref => {
            let v = w.syscall_once(e.owner, |In(t): In<Entity>, q: Query<&React<V>>| q.get(t).ok().map(|r| (**r).0));
            out.ret = Some(v);
        }
        AccOp::GetMut { other, val } => {
            let found = w.syscall_once((pick(other), val), |In((t, val)): In<(Entity, u32)>, mut c: Commands, mut q: ReactiveMut<V>| match q.get_mut(&mut c, t) {
                Ok(v) => {
                    v.0 = val;
                    true
                }
                Err(_) => false,
            });
            out.ret = Some(if found { Some(1) } else { None });
        }
        AccOp::SingleMut { val } => {
            let en = w.syscall_once(val, |In(val): In<u32>, mut c: Commands, mut q: ReactiveMut<V>| {
                let (en, v) = q.single_mut(&mut c);
                v.0 = val;
                en
            });
            out.ret_entity = Some(en.to_bits());
        }
        AccOp::QueryGetMut { val } => {
            w.syscall_once((e.owner, val), |In((t, val)): In<(Entity, u32)>, mut c: Commands, mut q: Query<&mut React<V>>| {
                if let Ok(mut r) = q.get_mut(t) {
                    r.get_mut(&mut c).0 = val;
                }
            });
        }
        AccOp::TriggerMutationWorld => React::<V>::trigger_mutation(e.owner, w),
        AccOp::GetNoreact { other, val } => {
            let found = w.syscall_once((pick(other), val), |In((t, val)): In<(Entity, u32)>, mut q: ReactiveMut<V>| match q.get_noreact(t) {
                Ok(v) => {
                    v.0 = val;
                    true
                }
                Err(_) => false,
            });
            out.ret = Some(if found { Some(1) } else { None });
        }
        AccOp::SingleNoreact { val } => {
            let en = w.syscall_once(val, |In(val): In<u32>, mut q: ReactiveMut<V>| {
                let (en, v) = q.single_noreact();
                v.0 = val;
                en
            });
            out.ret_entity = Some(en.to_bits());
        }
        AccOp::QueryGetNoreact { val } => {
            w.syscall_once((e.owner, val), |In((t, val)): In<(Entity, u32)>, mut q: Query<&mut React<V>>| {
                if let Ok(mut r) = q.get_mut(t) {
                    r.get_noreact().0 = val;
                }
            });
        }
        AccOp::SetIfNeq { other, val } => {
            let r = w.syscall_once((pick(other), val), |In((t, val)): In<(Entity, u32)>, mut c: Commands, mut q: ReactiveMut<V>| q.set_if_neq(&mut c, t, V(val)).map(|v| v.0));
            out.ret = Some(r);
        }
        AccOp::SetSingleIfNotEq { val } => {
            let (en, r) = w.syscall_once(val, |In(val): In<u32>, mut c: Commands, mut q: ReactiveMut<V>| {
                let (en, r) = q.set_single_if_not_eq(&mut c, V(val));
                (en, r.map(|v| v.0))
            });
            out.ret = Some(r);
            out.ret_entity = Some(en.to_bits());
        }
        AccOp::QuerySetIfNeq { val } => {
            let r = w.syscall_once((e.owner, val), |In((t, val)): In<(Entity, u32)>, mut c: Commands, mut q: Query<&mut React<V>>| {
                q.get_mut(t).ok().and_then(|r| r.into_inner().set_if_neq(&mut c, V(val)).map(|v| v.0))
            });
            out.ret = Some(r);
        }
        AccOp::Insert { dead, val } => {
            let t = if dead { e.dead } else { e.owner };
            w.react(|rc| rc.insert(t, V(val)));
        }
        AccOp::ResDeref => {
            let v = w.syscall_once((), |r: ReactRes<R>| r.0);
            out.ret = Some(Some(v));
        }
        AccOp::ResMutDeref => {
            let v = w.syscall_once((), |r: ReactResMut<R>| r.0);
            out.ret = Some(Some(v));
        }
        AccOp::ResGetMut { val } => {
            w.syscall_once(val, |In(val): In<u32>, mut c: Commands, mut r: ReactResMut<R>| r.get_mut(&mut c).0 = val);
        }
        AccOp::ResGetNoreact { val } => {
            w.syscall_once(val, |In(val): In<u32>, mut r: ReactResMut<R>| r.get_noreact().0 = val);
        }
        AccOp::ResSetIfNeq { val } => {
            let r = w.syscall_once(val, |In(val): In<u32>, mut c: Commands, mut r: ReactResMut<R>| r.set_if_neq(&mut c, R(val)).map(|v| v.0));
            out.ret = Some(r);
        }
        AccOp::WorldReactResource => out.ret = Some(Some(w.react_resource::<R>().0)),
        AccOp::WorldGetReactResource => out.ret = Some(w.get_react_resource::<R>().map(|r| r.0)),
        AccOp::WorldMutNoreact { val } => w.react_resource_mut_noreact::<R>().0 = val,
        AccOp::WorldGetNoreact { val } => {
            if let Some(r) = w.get_react_resource_noreact::<R>() {
                r.0 = val;
            }
        }
        AccOp::WorldGetOrInsertWith { val } => out.ret = Some(Some(w.get_react_resource_or_insert_with(move || R(val + 100)).0)),
        AccOp::WorldContains => out.ret = Some(Some(w.contains_react_resource::<R>() as u32)),
        AccOp::WorldTriggerResource => w.trigger_resource_mutation::<R>(),
        AccOp::RcTriggerResource => {
            w.react(|rc| rc.trigger_resource_mutation::<R>());
        }
        AccOp::WorldInsertResource { val } => w.insert_react_resource(R(val)),
        AccOp::CommandsInsertResource { val } => {
            w.syscall_once(val, |In(val): In<u32>, mut c: Commands| c.insert_react_resource(R(val)));
        }
        AccOp::WorldRemoveAndReinsert { val } => {
            let old = w.remove_react_resource::<R>().map(|r| r.0);
            w.insert_react_resource(R(val));
            out.ret = Some(old);
        }
        AccOp::WorldInitExisting => w.init_react_resource::<R>(),
        AccOp::CommandsInitExisting => {
            w.syscall_once((), |mut c: Commands| c.init_react_resource::<R>());
        }
        AccOp::CommandsRemoveAndInit => {
            w.syscall_once((), |mut c: Commands| {
                c.remove_react_resource::<R>();
                c.init_react_resource::<R>();
            });
        }
    }
    out
}

/// The documented table: (expected outcome, expected reactions, component value afterwards, resource value afterwards).
fn expected(op: AccOp, v: u32, r: u32, owner: u64) -> (Outcome, Counts, u32, u32) {
    let mut c = Counts::default();
    let mut out = Outcome { ret: None, ret_entity: None };
    let mut nv = v;
    let mut nr = r;
    let mut mutated = |c: &mut Counts| {
        c.mutation.push(owner);
        c.entity_mutation.push(owner);
    };
    match op {
        AccOp::ReactiveGet { other } | AccOp::ReactiveMutGet { other } => out.ret = Some(if other { None } else { Some(v) }),
        AccOp::ReactiveSingle | AccOp::ReactiveMutSingle => {
            out.ret = Some(Some(v));
            out.ret_entity = Some(owner);
        }
        AccOp::QueryGet | AccOp::QueryDeref => out.ret = Some(Some(v)),
        AccOp::GetMut { other, val } => {
            if other {
                out.ret = Some(None);
            } else {
                out.ret = Some(Some(1));
                nv = val;
                mutated(&mut c);
            }
        }
        AccOp::SingleMut { val } => {
            out.ret_entity = Some(owner);
            nv = val;
            mutated(&mut c);
        }
        AccOp::QueryGetMut { val } => {
            nv = val;
            mutated(&mut c);
        }
        AccOp::TriggerMutationWorld => mutated(&mut c),
        AccOp::GetNoreact { other, val } => {
            if other {
                out.ret = Some(None);
            } else {
                out.ret = Some(Some(1));
                nv = val;
            }
        }
        AccOp::SingleNoreact { val } => {
            out.ret_entity = Some(owner);
            nv = val;
        }
        AccOp::QueryGetNoreact { val } => nv = val,
        AccOp::SetIfNeq { other, val } => {
            if other || val == v {
                out.ret = Some(None);
            } else {
                out.ret = Some(Some(v));
                nv = val;
                mutated(&mut c);
            }
        }
        AccOp::SetSingleIfNotEq { val } => {
            out.ret_entity = Some(owner);
            if val == v {
                out.ret = Some(None);
            } else {
                out.ret = Some(Some(v));
                nv = val;
                mutated(&mut c);
            }
        }
        AccOp::QuerySetIfNeq { val } => {
            if val == v {
                out.ret = Some(None);
            } else {
                out.ret = Some(Some(v));
                nv = val;
                mutated(&mut c);
            }
        }
        AccOp::Insert { dead, val } => {
            if !dead {
                nv = val;
                c.insertion.push(owner);
                c.entity_insertion.push(owner);
            }
        }
        AccOp::ResDeref | AccOp::ResMutDeref | AccOp::WorldReactResource | AccOp::WorldGetReactResource => out.ret = Some(Some(r)),
        AccOp::ResGetMut { val } => {
            nr = val;
            c.resource = 1;
        }
        AccOp::ResGetNoreact { val } | AccOp::WorldMutNoreact { val } | AccOp::WorldGetNoreact { val } => nr = val,
        AccOp::ResSetIfNeq { val } => {
            if val == r {
                out.ret = Some(None);
            } else {
                out.ret = Some(Some(r));
                nr = val;
                c.resource = 1;
            }
        }
        AccOp::WorldGetOrInsertWith { .. } => out.ret = Some(Some(r)),
        AccOp::WorldContains => out.ret = Some(Some(1)),
        AccOp::WorldTriggerResource | AccOp::RcTriggerResource => c.resource = 1,
        AccOp::WorldInsertResource { val } | AccOp::CommandsInsertResource { val } => nr = val,
        AccOp::WorldRemoveAndReinsert { val } => {
            out.ret = Some(Some(r));
            nr = val;
        }
        AccOp::WorldInitExisting | AccOp::CommandsInitExisting => {}
        AccOp::CommandsRemoveAndInit => nr = 0,
    }
    (out, c, nv, nr)
}

fn kind(op: &AccOp) -> String {
    let s = format!("{:?}", op);
    s.split(|c: char| !c.is_alphanumeric()).next().unwrap_or("").to_string()
}

pub struct AccResult {
    pub violations: Vec<(String, String)>,
    pub calls: u32,
    pub kinds: BTreeSet<String>,
    pub triggering_calls: u32,
    pub silent_calls_with_listener: u32,
}

pub fn run_sequence(ops: &[AccOp]) -> AccResult {
    let mut app = App::new();
    app.add_plugins(ReactPlugin);
    let tally = Tally(Arc::new(Mutex::new(Counts::default())));
    let w = app.world_mut();
    w.insert_resource(tally.clone());
    w.insert_react_resource(R(0));
    let owner = w.spawn_empty().id();
    let other = w.spawn_empty().id();
    let dead = w.spawn_empty().id();
    w.despawn(dead);
    w.react(|rc| rc.insert(owner, V(0)));
    let e = Ents { owner, other, dead };
    // listeners of every kind the accessors can trigger
    w.react(|rc| {
        rc.on_persistent(mutation::<V>(), |ev: MutationEvent<V>, t: Res<Tally>| {
            if let Ok(en) = ev.get() {
                lk(&t.0).mutation.push(en.to_bits());
            }
        });
        rc.on_persistent(entity_mutation::<V>(owner), |ev: MutationEvent<V>, t: Res<Tally>| {
            if let Ok(en) = ev.get() {
                lk(&t.0).entity_mutation.push(en.to_bits());
            }
        });
        rc.on_persistent(insertion::<V>(), |ev: InsertionEvent<V>, t: Res<Tally>| {
            if let Ok(en) = ev.get() {
                lk(&t.0).insertion.push(en.to_bits());
            }
        });
        rc.on_persistent(entity_insertion::<V>(owner), |ev: InsertionEvent<V>, t: Res<Tally>| {
            if let Ok(en) = ev.get() {
                lk(&t.0).entity_insertion.push(en.to_bits());
            }
        });
        rc.on_persistent(resource_mutation::<R>(), |t: Res<Tally>| {
            lk(&t.0).resource += 1;
        });
    });
    let mut violations = vec![];
    let mut v = 0u32;
    let mut r = 0u32;
    let mut kinds = BTreeSet::new();
    let mut triggering = 0;
    let mut silent = 0;
    for (i, op) in ops.iter().enumerate() {
        *lk(&tally.0) = Counts::default();
        let got = perform(app.world_mut(), &e, *op);
        let counts = lk(&tally.0).clone();
        let (want, want_counts, nv, nr) = expected(*op, v, r, owner.to_bits());
        let k = kind(op);
        kinds.insert(k.clone());
        if want_counts == Counts::default() {
            silent += 1;
        } else {
            triggering += 1;
        }
        if counts != want_counts {
            let what = if want_counts == Counts::default() { "spurious-reaction" } else if counts == Counts::default() { "missing-reaction" } else { "wrong-reactions" };
            violations.push((format!("C14/accessor-table/{what}/{k}"), format!("call #{i} {:?} (value {v}, resource {r}): reactions observed {:?}, documented {:?}", op, counts, want_counts)));
        }
        if got != want {
            violations.push((format!("C14/accessor-table/wrong-return/{k}"), format!("call #{i} {:?} (value {v}, resource {r}): returned {:?}, documented {:?}", op, got, want)));
        }
        let w = app.world_mut();
        let stored_v = w.get::<React<V>>(owner).map(|c| c.get().0);
        let stored_r = w.get_react_resource::<R>().map(|x| x.0);
        if stored_v != Some(nv) || stored_r != Some(nr) {
            violations.push((format!("C14/accessor-table/wrong-stored-value/{k}"), format!("call #{i} {:?}: stored component {:?} / resource {:?}, documented {nv} / {nr}", op, stored_v, stored_r)));
        }
        if w.get::<React<V>>(other).is_some() || w.get_entity(dead).is_ok() {
            violations.push((format!("C14/accessor-table/component-appeared-elsewhere/{k}"), format!("call #{i} {:?}: the component appeared on another entity or a despawned entity came back", op)));
        }
        v = stored_v.unwrap_or(nv);
        r = stored_r.unwrap_or(nr);
        if !violations.is_empty() {
            break;
        }
    }
    AccResult { violations, calls: ops.len() as u32, kinds, triggering_calls: triggering, silent_calls_with_listener: silent }
}

#[derive(Serialize, Deserialize)]
pub struct AccReplay {
    pub property: String,
    pub signature: String,
    pub message: String,
    pub acc_ops: Vec<AccOp>,
}

pub struct AccStage {
    pub sequences: usize,
    pub calls: u64,
    pub triggering: u64,
    pub silent: u64,
    pub kinds: BTreeSet<String>,
    /// signature -> (count, witness, message)
    pub violations: std::collections::BTreeMap<String, (usize, Vec<AccOp>, String)>,
}

pub fn run_stage(seed: u64, sequences: usize) -> AccStage {
    let mut st = AccStage { sequences: 0, calls: 0, triggering: 0, silent: 0, kinds: BTreeSet::new(), violations: Default::default() };
    for k in 0..sequences {
        let ops = gen_sequence(seed.wrapping_mul(31337).wrapping_add(k as u64));
        let r = std::panic::catch_unwind(std::panic::AssertUnwindSafe(|| run_sequence(&ops)));
        st.sequences += 1;
        match r {
            Ok(r) => {
                st.calls += r.calls as u64;
                st.triggering += r.triggering_calls as u64;
                st.silent += r.silent_calls_with_listener as u64;
                st.kinds.extend(r.kinds);
                for (sig, msg) in r.violations {
                    st.violations.entry(sig).or_insert((0, ops.clone(), msg)).0 += 1;
                }
            }
            Err(p) => {
                let msg = p.downcast_ref::<String>().cloned().or_else(|| p.downcast_ref::<&str>().map(|s| s.to_string())).unwrap_or_default();
                let short: String = msg.chars().take(60).map(|c| if c.is_ascii_digit() { '#' } else { c }).collect();
                st.violations.entry(format!("C14/accessor-table/panic/{short}")).or_insert((0, ops.clone(), msg)).0 += 1;
            }
        }
    }
    st
}

/// Shrinks a witness by deleting calls while the same signature is reported.
pub fn shrink(ops: &[AccOp], sig: &str) -> Vec<AccOp> {
    let mut cur = ops.to_vec();
    let mut i = cur.len();
    while i > 0 {
        i -= 1;
        let mut c = cur.clone();
        c.remove(i);
        let still = std::panic::catch_unwind(std::panic::AssertUnwindSafe(|| run_sequence(&c))).map(|r| r.violations.iter().any(|v| v.0 == sig)).unwrap_or(sig.contains("/panic/"));
        if still {
            cur = c;
        }
    }
    cur
}

pub fn replay(path: &str) -> Option<bool> {
    let s = std::fs::read_to_string(path).ok()?;
    let rf: AccReplay = serde_json::from_str(&s).ok()?;
    let r = std::panic::catch_unwind(std::panic::AssertUnwindSafe(|| run_sequence(&rf.acc_ops)));
    match r {
        Ok(r) => {
            for (i, op) in rf.acc_ops.iter().enumerate() {
                println!("#{i} {:?}", op);
            }
            for v in r.violations.iter() {
                println!("{}: {}", v.0, v.1);
            }
            Some(r.violations.iter().any(|v| v.0 == rf.signature))
        }
        Err(_) => {
            println!("the sequence panicked");
            Some(rf.signature.contains("/panic/"))
        }
    }
}
