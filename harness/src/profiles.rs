//! Per-property workload profiles (random programs) and directed families (enumerated scenario templates).

use crate::program::*;
use crate::types::*;

pub fn profile_for(prop: &str) -> Profile {
    let mut p = Profile::base("base");
    match prop {
        "C01" => {
            p.name = "register-revoke-trigger";
            p.w.register = 14;
            p.w.revoke = 8;
            p.w.broadcast = 10;
            p.w.entity_ev = 10;
            p.w.insert = 8;
            p.w.access = 10;
            p.w.res_access = 6;
            p.w.res_trigger = 4;
            p.w.respawn_ent = 4;
            p.w.with = 4;
            p.max_bundle = 4;
            p.init_regs = (4, 8);
        }
        "C02" => {
            p.name = "recursion";
            p.w.run = 16;
            p.w.send_se = 16;
            p.w.despawn_sys = 4;
            p.w.spawn_sys = 4;
            p.cyclic_pct = 70;
            p.runs_per_script = (2, 5);
            p.acts_per_run = (1, 4);
            p.flavour_w = [4, 2, 2, 2];
            p.fuel = 50;
        }
        "C03" => {
            p.name = "pending-mix";
            p.w.send_se = 12;
            p.w.broadcast = 12;
            p.w.entity_ev = 12;
            p.w.access = 12;
            p.w.insert = 8;
            p.w.run = 8;
            p.w.remove = 5;
            p.cyclic_pct = 60;
            p.acts_per_run = (1, 5);
            p.init_regs = (3, 5);
            p.max_bundle = 4;
        }
        "C04" => {
            p.name = "probes";
            p.w.probe = 18;
            p.w.send_se = 12;
            p.w.broadcast = 12;
            p.w.entity_ev = 12;
            p.w.access = 10;
            p.w.run = 10;
            p.w.res_trigger = 5;
            p.cyclic_pct = 50;
            p.acts_per_run = (1, 5);
            p.flavour_w = [4, 3, 2, 2];
        }
        "C05" => {
            p.name = "listeners-and-faults";
            p.w.broadcast = 16;
            p.w.entity_ev = 16;
            p.w.send_se = 12;
            p.w.revoke = 8;
            p.w.despawn_sys = 6;
            p.w.despawn_ent = 4;
            p.trig_w = [8, 8, 6, 1, 1, 1, 1, 1, 1, 2, 1];
            p.init_regs = (5, 9);
            p.stale_pct = 15;
        }
        "C06" => {
            p.name = "revoke-heavy";
            p.w.revoke = 16;
            p.w.wr = 12;
            p.w.ew = 6;
            p.w.register = 12;
            p.w.with = 5;
            p.mode_w = [2, 1, 7];
            p.max_bundle = 4;
            p.init_regs = (4, 8);
        }
        "C07" => {
            p.name = "lifetime";
            p.w.register = 16;
            p.w.revoke = 10;
            p.w.despawn_ent = 8;
            p.w.respawn_ent = 6;
            p.w.gc = 5;
            p.w.despawn_sys = 3;
            p.w.once = 0;
            p.trig_w = [3, 4, 2, 2, 2, 2, 4, 4, 3, 8, 2];
            p.max_bundle = 4;
            p.mode_w = [2, 5, 5];
        }
        "C08" => {
            p.name = "removal-despawn";
            p.w.remove = 14;
            p.w.despawn_ent = 9;
            p.w.insert = 14;
            p.w.respawn_ent = 7;
            p.w.poll = 4;
            p.w.register = 10;
            p.trig_w = [1, 1, 1, 2, 2, 8, 2, 2, 8, 8, 1];
            p.entry_w = [4, 2, 5, 5];
        }
        "C09" => {
            p.name = "ordering";
            p.w.mark = 8;
            p.w.run = 12;
            p.w.send_se = 12;
            p.w.broadcast = 12;
            p.w.entity_ev = 10;
            p.w.access = 10;
            p.trig_w = [5, 5, 3, 3, 5, 1, 3, 5, 1, 1, 3];
            p.acts_per_run = (1, 4);
            p.cyclic_pct = 50;
            p.fuel = 50;
        }
        "C11" => {
            p.name = "fault-heavy";
            p.w.despawn_sys = 8;
            p.w.run = 12;
            p.w.send_se = 12;
            p.w.once = 5;
            p.w.despawn_ent = 5;
            p.stale_pct = 25;
            p.flavour_w = [4, 2, 2, 2];
            p.ops = (4, 10);
            p.cyclic_pct = 60;
        }
        "C12" => {
            p.name = "same-sender-deliveries";
            p.w.send_se = 18;
            p.w.broadcast = 14;
            p.w.entity_ev = 14;
            p.w.access = 9;
            p.w.insert = 6;
            p.w.register = 3;
            p.w.revoke = 2;
            p.acts_per_run = (2, 5);
            p.acts_per_op = (2, 5);
            p.init_regs = (2, 4);
            p.max_bundle = 4;
            p.cyclic_pct = 60;
            p.scripts = (2, 4);
        }
        "C13" => {
            p.name = "many-runs";
            p.fuel = 60;
            p.cyclic_pct = 85;
            p.w.run = 16;
            p.w.send_se = 16;
            p.w.spawn_sys = 5;
            p.w.broadcast = 10;
            p.flavour_w = [3, 3, 2, 2];
        }
        "C14" => {
            p.name = "accessors";
            p.w.access = 24;
            p.w.res_access = 16;
            p.w.insert = 12;
            p.w.trigger_mutation = 6;
            p.w.res_trigger = 6;
            p.w.despawn_ent = 4;
            p.w.respawn_ent = 4;
            p.w.run = 3;
            p.w.send_se = 3;
            p.w.broadcast = 3;
            p.w.entity_ev = 3;
            p.trig_w = [1, 1, 1, 6, 8, 1, 5, 7, 1, 1, 7];
            p.acts_per_run = (0, 2);
            p.acts_per_op = (1, 4);
            p.stale_pct = 15;
            p.entry_w = [5, 2, 2, 3];
        }
        "C15" => {
            p.name = "once";
            p.w.once = 16;
            p.w.revoke = 8;
            p.w.broadcast = 10;
            p.w.entity_ev = 10;
            p.w.access = 8;
            p.w.res_trigger = 5;
            p.max_bundle = 4;
        }
        "C16" => {
            p.name = "world-reactors";
            p.w.wr = 16;
            p.w.ew = 16;
            p.w.access = 12;
            p.w.entity_ev = 12;
            p.w.insert = 10;
            p.w.remove = 6;
            p.w.despawn_ent = 3;
            p.w.respawn_ent = 3;
            p.stale_pct = 5;
        }
        "C18" => {
            p.name = "stale-references";
            p.stale_pct = 40;
            p.w.despawn_ent = 9;
            p.w.despawn_sys = 9;
            p.w.respawn_ent = 5;
            p.w.with = 5;
            p.w.revoke = 8;
            p.w.wr = 6;
            p.w.ew = 6;
        }
        _ => {}
    }
    p
}

//-------------------------------------------------------------------------------------------------------------------
// Directed families

fn script(runs: Vec<Vec<Act>>, cyclic: bool) -> Script {
    Script { runs, cyclic }
}

fn prog(name: String, scripts: Vec<Script>, ops: Vec<Op>, init: [[Option<u32>; NT]; NE]) -> Program {
    Program { name, scripts, ops, fuel: 40, init_comps: init, frame_order: 0, app_reactors: vec![], wr_start: vec![] }
}

const ALL_COMPS: [[Option<u32>; NT]; NE] = [[Some(0), Some(0)], [Some(0), Some(0)], [Some(0), Some(0)], [Some(0), Some(0)]];

fn reg(mode: Mode, bundle: Vec<Trig>, script: u8) -> Act {
    // registration form (bundle shape x API) varies deterministically with the parameters
    let form = (script as usize + bundle.len() * 3 + mode as usize * 5) as u8 % 8;
    Act::Register { mode, once: false, bundle, flavour: Flavour::Ord, script, form }
}

fn sys(op_acts: Vec<Act>) -> Op {
    Op { entry: Entry::Syscall, acts: op_acts }
}

/// Delivery kinds used by the C12 / C03 families. All reach a target registered with the bundle of `target_bundle`.
#[derive(Clone, Copy, Debug, PartialEq)]
pub enum DK {
    Se,
    Bc,
    Ee,
    Mut,
    Ins,
    Res,
}

fn delivery_act(k: DK, target_sys: u8, n: usize) -> Act {
    match k {
        DK::Se => Act::SendSe(target_sys, (n % NT) as u8),
        DK::Bc => Act::Broadcast(0),
        DK::Ee => Act::EntityEv(0, 0),
        DK::Mut => Act::Access(0, 0, How::GetMut, n as u32 + 1),
        DK::Ins => Act::Insert(0, 1, n as u32 + 1),
        DK::Res => Act::ResTrigger(0),
    }
}

fn target_bundle() -> Vec<Trig> {
    vec![Trig::Bc(0), Trig::Ee(0, 0), Trig::Mut(0), Trig::Ins(1), Trig::Res(0)]
}

fn sequences(kinds: &[DK], max_len: usize) -> Vec<Vec<DK>> {
    let mut out: Vec<Vec<DK>> = vec![];
    let mut frontier: Vec<Vec<DK>> = vec![vec![]];
    for _ in 0..max_len {
        let mut next = vec![];
        for s in frontier.iter() {
            for k in kinds {
                let mut t = s.clone();
                t.push(*k);
                next.push(t);
            }
        }
        out.extend(next.iter().cloned());
        frontier = next;
    }
    out
}

/// C12/C03 family: a sender issues a sequence of deliveries of mixed kinds to one target that is idle or busy
/// (= the sender itself), alone or interleaved with deliveries to a second target.
pub fn family_sequences(max_len: usize, kinds: &[DK], tag: &str) -> Vec<Program> {
    let mut out = vec![];
    for seq in sequences(kinds, max_len) {
        for busy in [false, true] {
            for interleaved in [false, true] {
                // instance order at op 0: first registered = published index 0
                // published[0] = T (target, script 0), published[1] = U (other target, script 1), published[2] = S (sender)
                let mut acts: Vec<Act> = vec![];
                for (n, k) in seq.iter().enumerate() {
                    acts.push(delivery_act(*k, 0, n));
                    if interleaved {
                        acts.push(Act::SendSe(1, 0));
                    }
                }
                let (t_script, s_script) = if busy {
                    // the target sends to itself while executing its first run
                    (script(vec![acts.clone()], false), script(vec![], false))
                } else {
                    (script(vec![], false), script(vec![acts.clone()], false))
                };
                let scripts = vec![t_script, script(vec![], false), s_script];
                let ops = vec![
                    sys(vec![
                        reg(Mode::Persistent, target_bundle(), 0),
                        reg(Mode::Persistent, vec![Trig::Bc(1)], 1),
                        Act::SpawnSys { flavour: Flavour::Ord, script: 2 },
                    ]),
                    // kick: run the sender (published[2]) or, in the busy setting, the target itself
                    sys(vec![Act::Run(if busy { 0 } else { 2 })]),
                ];
                out.push(prog(
                    format!("{tag}-seq-{:?}-{}-{}", seq, if busy { "busy" } else { "idle" }, if interleaved { "interleaved" } else { "alone" }),
                    scripts,
                    ops,
                    ALL_COMPS,
                ));
            }
        }
    }
    out
}

/// C05/C01 family: n listeners of one event, a subset of which is killed (revoked / despawned) by the first
/// listener between scheduling and running.
pub fn family_listeners() -> Vec<Program> {
    let mut out = vec![];
    for kind in 0..2 {
        for n in 0..=4usize {
            for kill_mask in 0..(1u32 << n) {
                for how in 0..2 {
                    if kill_mask == 0 && how == 1 {
                        continue;
                    }
                    // listener 0 is the killer (persistent); listeners 1..=n are revokable (tokens 0..n-1)
                    let trig = if kind == 0 { Trig::Bc(0) } else { Trig::Ee(0, 0) };
                    let mut setup = vec![reg(Mode::Persistent, vec![trig], 0)];
                    for i in 0..n {
                        setup.push(reg(Mode::Revokable, vec![if kind == 1 && i % 2 == 1 { Trig::AnyEe(0) } else { trig }], 1));
                    }
                    let mut kill = vec![];
                    for i in 0..n {
                        if kill_mask & (1 << i) != 0 {
                            kill.push(if how == 0 { Act::Revoke(i as u8) } else { Act::DespawnSys(i as u8 + 1) });
                        }
                    }
                    let scripts = vec![script(vec![kill], false), script(vec![], false)];
                    let ev = if kind == 0 { Act::Broadcast(0) } else { Act::EntityEv(0, 0) };
                    out.push(prog(
                        format!("listeners-k{kind}-n{n}-kill{kill_mask:b}-how{how}"),
                        scripts,
                        vec![sys(setup), sys(vec![ev.clone()]), sys(vec![ev])],
                        ALL_COMPS,
                    ));
                }
            }
        }
    }
    // system events: idle, busy, dead, dies while postponed
    for case in 0..4 {
        let t_script = match case {
            1 => script(vec![vec![Act::SendSe(0, 0), Act::SendSe(0, 1)]], false),
            3 => script(vec![vec![Act::SendSe(0, 0), Act::DespawnSys(0)]], false),
            _ => script(vec![], false),
        };
        let mut ops = vec![sys(vec![Act::SpawnSys { flavour: Flavour::Ord, script: 0 }])];
        if case == 2 {
            ops.push(sys(vec![Act::DespawnSys(0), Act::SendSe(0, 0)]));
        } else {
            ops.push(Op { entry: Entry::WorldApi, acts: vec![Act::SendSe(0, 0)] });
        }
        out.push(prog(format!("sysevent-case{case}"), vec![t_script], ops, ALL_COMPS));
    }
    out
}

/// C07/C15 family: mode x bundle shapes x order of release.
pub fn family_lifetime() -> Vec<Program> {
    let mut out = vec![];
    let shapes: Vec<Vec<Trig>> = vec![
        vec![],
        vec![Trig::Bc(0)],
        vec![Trig::Ee(0, 0)],
        vec![Trig::Desp(0)],
        vec![Trig::Bc(0), Trig::Desp(0)],
        vec![Trig::EMut(0, 0), Trig::Desp(1)],
        vec![Trig::Res(0), Trig::ERem(0, 0), Trig::Desp(0)],
        vec![Trig::Ee(0, 0), Trig::Ee(1, 0), Trig::Bc(1)],
        vec![Trig::Desp(0), Trig::Desp(1)],
        vec![Trig::EIns(4, 0)], // stale reference (falls back to the live entity until the slot is respawned)
    ];
    let releases: Vec<Vec<Act>> = vec![
        vec![],
        vec![Act::Revoke(0)],
        vec![Act::DespawnEnt(0)],
        vec![Act::DespawnEnt(0), Act::DespawnEnt(1)],
        vec![Act::DespawnEnt(1), Act::DespawnEnt(0)],
        vec![Act::DespawnEnt(0), Act::Revoke(0)],
        vec![Act::Revoke(0), Act::DespawnEnt(0)],
        vec![Act::DespawnEnt(0), Act::Gc, Act::DespawnEnt(1), Act::Revoke(0)],
        vec![Act::DespawnSys(0)],
        vec![Act::Revoke(0), Act::Revoke(0)],
    ];
    for (mi, mode) in [Mode::Persistent, Mode::Cleanup, Mode::Revokable].iter().enumerate() {
        for once in [false, true] {
            if once && *mode != Mode::Revokable {
                continue;
            }
            for (si, shape) in shapes.iter().enumerate() {
                for (ri, rel) in releases.iter().enumerate() {
                    for split in [false, true] {
                        let r = Act::Register { mode: *mode, once, bundle: shape.clone(), flavour: Flavour::Ord, script: 0, form: ((mi + si + ri) % 8) as u8 };
                        let mut ops = vec![sys(vec![r])];
                        if split {
                            for a in rel.iter() {
                                ops.push(sys(vec![a.clone()]));
                            }
                        } else if !rel.is_empty() {
                            ops.push(sys(rel.clone()));
                        }
                        ops.push(sys(vec![Act::Broadcast(0), Act::EntityEv(0, 0)]));
                        out.push(prog(
                            format!("lifetime-m{mi}-once{once}-s{si}-r{ri}-split{split}"),
                            vec![script(vec![], false)],
                            ops,
                            ALL_COMPS,
                        ));
                    }
                }
            }
        }
    }
    out
}

/// C07 / C08 family: a reactor loses its remaining triggers *while it is running* (its own commands despawn the watched
/// entities or revoke its token) and then starts another reaction, so the despawns are noticed while the reactor is
/// unavailable: the despawn reactions for it wait for the end of its run and are the only thing that keeps it alive.
pub fn family_lifetime_inrun() -> Vec<Program> {
    let mut out = vec![];
    // (bundle, act that starts the first run)
    let shapes: Vec<(Vec<Trig>, Act)> = vec![
        (vec![Trig::Desp(0), Trig::Desp(1)], Act::DespawnEnt(0)),
        (vec![Trig::Desp(0), Trig::Desp(1), Trig::Desp(2)], Act::DespawnEnt(0)),
        (vec![Trig::Bc(0), Trig::Desp(1)], Act::Broadcast(0)),
        (vec![Trig::Bc(0), Trig::Desp(1), Trig::Desp(2)], Act::Broadcast(0)),
        (vec![Trig::Ee(0, 0), Trig::Desp(0), Trig::Desp(1)], Act::EntityEv(0, 0)),
        (vec![Trig::ERem(0, 0), Trig::Desp(1)], Act::Remove(0, 0)),
    ];
    // what the first run of the reactor does
    let bodies: Vec<Vec<Act>> = vec![
        vec![Act::DespawnEnt(1), Act::Broadcast(1)],
        vec![Act::DespawnEnt(1), Act::DespawnEnt(2), Act::Broadcast(1)],
        vec![Act::DespawnEnt(2), Act::DespawnEnt(1), Act::Broadcast(1), Act::Broadcast(1)],
        vec![Act::DespawnEnt(1), Act::Revoke(0), Act::Broadcast(1)],
        vec![Act::DespawnEnt(0), Act::DespawnEnt(1), Act::EntityEv(3, 0)],
        vec![Act::DespawnEnt(1), Act::Gc, Act::DespawnEnt(2), Act::Broadcast(1)],
    ];
    // other reactors watching the same entities
    let others: Vec<Vec<Act>> = vec![
        vec![],
        vec![Act::Register { mode: Mode::Revokable, once: true, bundle: vec![Trig::Desp(1)], flavour: Flavour::Ord, script: 0, form: 1 }],
        vec![reg(Mode::Cleanup, vec![Trig::Desp(1), Trig::Desp(2)], 0)],
        vec![reg(Mode::Cleanup, vec![Trig::Desp(2)], 0), reg(Mode::Persistent, vec![Trig::Desp(1)], 0)],
    ];
    for (mi, mode) in [Mode::Cleanup, Mode::Revokable, Mode::Persistent].iter().enumerate() {
        for (si, (shape, start)) in shapes.iter().enumerate() {
            for (bi, body) in bodies.iter().enumerate() {
                for (oi, other) in others.iter().enumerate() {
                    for first in [false, true] {
                        // script 0: empty (listeners, other reactors); script 1: the reactor under test
                        let scripts = vec![script(vec![], false), script(vec![body.clone()], false)];
                        let r = reg(*mode, shape.clone(), 1);
                        let listeners = vec![reg(Mode::Persistent, vec![Trig::Bc(1)], 0), reg(Mode::Persistent, vec![Trig::Ee(3, 0)], 0)];
                        let mut setup = vec![];
                        if first {
                            setup.push(r.clone());
                        }
                        setup.extend(listeners);
                        setup.extend(other.iter().cloned());
                        if !first {
                            setup.push(r);
                        }
                        let ops = vec![sys(setup), sys(vec![start.clone()]), sys(vec![Act::Mark]), sys(vec![Act::Broadcast(0), Act::Broadcast(1)])];
                        out.push(prog(format!("lifetime-inrun-m{mi}-s{si}-b{bi}-o{oi}-first{first}"), scripts, ops, ALL_COMPS));
                    }
                }
            }
        }
    }
    out
}

/// C08 family: histories of insert / remove / re-insert / despawn between polls with 1..3 reactors.
pub fn family_removals() -> Vec<Program> {
    let mut out = vec![];
    let histories: Vec<Vec<Act>> = vec![
        vec![Act::Remove(0, 0)],
        vec![Act::Remove(0, 0), Act::Insert(0, 0, 1), Act::Remove(0, 0)],
        vec![Act::Remove(0, 0), Act::Insert(0, 0, 1)],
        vec![Act::DespawnEnt(0)],
        vec![Act::Remove(0, 0), Act::DespawnEnt(0)],
        vec![Act::Remove(0, 1), Act::Remove(1, 0), Act::DespawnEnt(1)],
        vec![Act::Remove(2, 0)],
        vec![Act::DespawnEnt(0), Act::RespawnEnt(0), Act::Insert(0, 0, 2), Act::Remove(0, 0)],
    ];
    let regsets: Vec<Vec<Act>> = vec![
        vec![reg(Mode::Persistent, vec![Trig::Rem(0)], 0)],
        vec![reg(Mode::Persistent, vec![Trig::ERem(0, 0)], 0), reg(Mode::Cleanup, vec![Trig::Rem(0), Trig::Desp(0)], 0)],
        vec![
            reg(Mode::Revokable, vec![Trig::Desp(0)], 0),
            reg(Mode::Cleanup, vec![Trig::Desp(0), Trig::Desp(1)], 0),
            reg(Mode::Persistent, vec![Trig::ERem(0, 0), Trig::ERem(1, 0), Trig::Rem(1)], 0),
        ],
    ];
    for (hi, h) in histories.iter().enumerate() {
        for (gi, g) in regsets.iter().enumerate() {
            for entry in [Entry::Syscall, Entry::WorldApi] {
                for place in 0..3 {
                    // place 0: top level; 1: inside a reactor body (tree); 2: trackers installed after the history
                    let mut scripts = vec![script(vec![], false)];
                    let mut ops = vec![];
                    match place {
                        0 => {
                            ops.push(sys(g.clone()));
                            ops.push(Op { entry, acts: h.clone() });
                        }
                        1 => {
                            scripts.push(script(vec![h.clone()], false));
                            let mut setup = g.clone();
                            setup.push(Act::SpawnSys { flavour: Flavour::Ord, script: 1 });
                            ops.push(sys(setup));
                            ops.push(Op { entry, acts: vec![Act::Run(g.len() as u8)] });
                        }
                        _ => {
                            ops.push(Op { entry, acts: h.clone() });
                            ops.push(sys(g.clone()));
                            ops.push(sys(vec![Act::Mark]));
                        }
                    }
                    ops.push(sys(vec![Act::Mark]));
                    out.push(prog(format!("removals-h{hi}-g{gi}-{:?}-p{place}", entry), scripts, ops, ALL_COMPS));
                }
            }
        }
    }
    out
}

/// C08 app-mode family: in one `App::update()` one ordinary system registers reactors, another causes removals /
/// despawns, a third re-inserts -- under every relative order of the three systems; further frames follow.
pub fn family_removals_app() -> Vec<Program> {
    let mut out = vec![];
    let causes: Vec<Vec<Act>> = vec![
        vec![Act::Remove(0, 0)],
        vec![Act::DespawnEnt(0)],
        vec![Act::Remove(0, 0), Act::Remove(1, 0)],
        vec![Act::Remove(0, 0), Act::DespawnEnt(0)],
    ];
    let regs: Vec<Act> = vec![
        reg(Mode::Persistent, vec![Trig::Rem(0), Trig::ERem(0, 0), Trig::Desp(0)], 0),
        reg(Mode::Cleanup, vec![Trig::Desp(0), Trig::ERem(1, 0)], 0),
    ];
    for (ci, cause) in causes.iter().enumerate() {
        for order in 0..6u8 {
            for pre_registered in [false, true] {
                // frame actions are dealt round-robin to the three systems: index i -> system i % 3
                let n = cause.len().max(regs.len());
                let mut frame = vec![];
                for i in 0..n {
                    frame.push(if pre_registered { Act::Mark } else { regs.get(i).cloned().unwrap_or(Act::Mark) });
                    frame.push(cause.get(i).cloned().unwrap_or(Act::Mark));
                    frame.push(if i == 0 { Act::Insert(2, 0, 5) } else { Act::Remove(2, 0) });
                }
                let mut ops = vec![];
                if pre_registered {
                    ops.push(sys(regs.clone()));
                }
                ops.push(Op { entry: Entry::Frame, acts: frame });
                ops.push(Op { entry: Entry::Frame, acts: vec![Act::Mark, Act::Insert(0, 0, 1), Act::Remove(2, 0)] });
                ops.push(Op { entry: Entry::Frame, acts: vec![Act::Remove(0, 0), Act::Mark, Act::Mark] });
                let mut p = prog(format!("removals-app-c{ci}-order{order}-pre{pre_registered}"), vec![script(vec![], false)], ops, ALL_COMPS);
                p.frame_order = order;
                out.push(p);
            }
        }
    }
    out
}

/// C14 family: every accessor x value pair x entity state, with type-wide and entity-scoped listeners.
pub fn family_accessors() -> Vec<Program> {
    let mut out = vec![];
    let hows = [How::GetMut, How::SetIfNeq, How::GetNoreact, How::Read];
    for how in hows {
        for val in [0u32, 1] {
            for state in 0..3 {
                // state 0: alive with component (value 0); 1: despawned earlier in the same body; 2: no component
                for calls in 1..=2 {
                    for excl in [false, true] {
                        let listeners = vec![
                            reg(Mode::Persistent, vec![Trig::Mut(0), Trig::Ins(0), Trig::Res(0)], 0),
                            reg(Mode::Persistent, vec![Trig::EMut(0, 0), Trig::EIns(0, 0)], 0),
                            Act::SpawnSys { flavour: if excl { Flavour::Excl } else { Flavour::Ord }, script: 1 },
                        ];
                        let mut body = vec![];
                        if state == 1 {
                            body.push(Act::DespawnEnt(0));
                        }
                        for _ in 0..calls {
                            body.push(Act::Access(0, 0, how, val));
                            body.push(Act::ResAccess(0, how, val));
                        }
                        body.push(Act::Insert(0, 0, val));
                        body.push(Act::TriggerMutation(0, 0));
                        let mut init = ALL_COMPS;
                        if state == 2 {
                            init[0][0] = None;
                        }
                        out.push(prog(
                            format!("accessors-{:?}-v{val}-s{state}-c{calls}-x{excl}", how),
                            vec![script(vec![], false), script(vec![body], false)],
                            vec![sys(listeners), sys(vec![Act::Run(2)])],
                            init,
                        ));
                    }
                }
            }
        }
    }
    out
}

/// C18 family: operation x despawn point.
pub fn family_stale() -> Vec<Program> {
    let mut out = vec![];
    // operations on a dead *entity*
    let ent_ops: Vec<(&str, Vec<Act>)> = vec![
        ("entity_event", vec![Act::EntityEv(0, 0)]),
        ("insert", vec![Act::Insert(0, 0, 1)]),
        ("mutate", vec![Act::Access(0, 0, How::GetMut, 1)]),
        ("trigger_mutation", vec![Act::TriggerMutation(0, 0)]),
        ("register_entity_triggers", vec![reg(Mode::Cleanup, vec![Trig::Ee(0, 0), Trig::EMut(0, 0), Trig::ERem(0, 0), Trig::Desp(0)], 0)]),
        ("register_mixed", vec![reg(Mode::Revokable, vec![Trig::Bc(0), Trig::EIns(0, 0)], 0)]),
        ("wr_add", vec![Act::WrAdd(0, vec![Trig::Ee(0, 0), Trig::Desp(0)])]),
        ("ew_add", vec![Act::EwAdd(0, 0, 5)]),
        ("ew_remove", vec![Act::EwRemove(0, 0, 0)]),
        ("remove", vec![Act::Remove(0, 0)]),
    ];
    for (name, op) in ent_ops.iter() {
        for point in 0..3 {
            // 0: despawned in an earlier op; 1: earlier in the same body; 2: by an earlier listener of the same broadcast
            let listeners = vec![
                reg(Mode::Persistent, vec![Trig::AnyEe(0), Trig::Ins(0), Trig::Mut(0), Trig::Bc(1)], 0),
                reg(Mode::Persistent, vec![Trig::Ee(0, 0), Trig::EIns(0, 0), Trig::EMut(0, 0)], 0),
                Act::EwAdd(0, 0, 3),
            ];
            let (scripts, ops) = match point {
                0 => (vec![script(vec![], false)], vec![sys(listeners), sys(vec![Act::DespawnEnt(0)]), sys(op.clone()), sys(vec![Act::Broadcast(1)])]),
                1 => {
                    let mut body = vec![Act::DespawnEnt(0)];
                    body.extend(op.clone());
                    (vec![script(vec![], false)], vec![sys(listeners), sys(body), sys(vec![Act::Broadcast(1)])])
                }
                _ => {
                    // two listeners of Bc(0): the first despawns the entity, the second performs the operation
                    let mut l = listeners.clone();
                    l.push(reg(Mode::Persistent, vec![Trig::Bc(0)], 1));
                    l.push(reg(Mode::Persistent, vec![Trig::Bc(0)], 2));
                    (
                        vec![script(vec![], false), script(vec![vec![Act::DespawnEnt(0)]], false), script(vec![op.clone()], false)],
                        vec![sys(l), sys(vec![Act::Broadcast(0)]), sys(vec![Act::Broadcast(1)])],
                    )
                }
            };
            out.push(prog(format!("stale-entity-{name}-p{point}"), scripts, ops, ALL_COMPS));
        }
    }
    // operations on a dead *system*
    let sys_ops: Vec<(&str, Vec<Act>)> = vec![
        ("run", vec![Act::Run(0)]),
        ("send_system_event", vec![Act::SendSe(0, 0)]),
        ("broadcast_with_dead_listener", vec![Act::Broadcast(0)]),
        ("entity_event_with_dead_listener", vec![Act::EntityEv(0, 0)]),
        ("mutation_with_dead_listener", vec![Act::Access(0, 0, How::GetMut, 1)]),
        ("revoke_dead", vec![Act::Revoke(0)]),
        ("with_on_dead", vec![Act::With { sys: 0, bundle: vec![Trig::Bc(1)] }]),
    ];
    for (name, op) in sys_ops.iter() {
        for point in 0..4 {
            // 0: earlier op; 1: same body; 2: by an earlier listener; 3: target despawns itself while commands for it are postponed
            for mode in [Mode::Persistent, Mode::Revokable] {
                let target = reg(mode, vec![Trig::Bc(0), Trig::Ee(0, 0), Trig::Mut(0)], 0);
                let other = reg(Mode::Persistent, vec![Trig::Bc(0), Trig::Bc(1)], 1);
                let (scripts, ops) = match point {
                    0 => (
                        vec![script(vec![], false), script(vec![], false)],
                        vec![sys(vec![target, other]), sys(vec![Act::DespawnSys(0)]), sys(op.clone()), sys(vec![Act::Broadcast(1)])],
                    ),
                    1 => {
                        let mut body = vec![Act::DespawnSys(0)];
                        body.extend(op.clone());
                        (vec![script(vec![], false), script(vec![], false)], vec![sys(vec![target, other]), sys(body), sys(vec![Act::Broadcast(1)])])
                    }
                    2 => {
                        // `other2` is registered first so that it runs before the target and despawns it
                        let killer = reg(Mode::Persistent, vec![Trig::Bc(0), Trig::Ee(0, 0), Trig::Mut(0)], 2);
                        (
                            vec![script(vec![], false), script(vec![], false), script(vec![vec![Act::DespawnSys(1)]], false)],
                            vec![sys(vec![killer, target, other]), sys(op.clone()), sys(vec![Act::Broadcast(1)])],
                        )
                    }
                    _ => {
                        let mut body = op.clone();
                        body.push(Act::DespawnSys(0));
                        (
                            vec![script(vec![body], false), script(vec![], false)],
                            vec![sys(vec![target, other]), sys(vec![Act::Run(0)]), sys(vec![Act::Broadcast(1)])],
                        )
                    }
                };
                out.push(prog(format!("stale-system-{name}-p{point}-{:?}", mode), scripts, ops, ALL_COMPS));
            }
        }
    }
    out
}

/// C02/C09 family: recursion shapes. A chain of systems of given depth; the deepest sends `fan` commands to a
/// target up the chain (self, parent, root); optionally the target dies.
pub fn family_recursion() -> Vec<Program> {
    let mut out = vec![];
    for depth in 1..=4usize {
        for fan in 1..=3usize {
            for back in 0..3usize {
                for dies in 0..3 {
                    for via in 0..3 {
                        if back >= depth {
                            continue;
                        }
                        // systems 0..depth-1, system i runs system i+1; the last one sends `fan` commands to system `target`
                        let target = (depth - 1 - back) as u8;
                        let mut scripts = vec![];
                        for i in 0..depth {
                            let mut acts = vec![Act::Mark];
                            if i + 1 < depth {
                                acts.push(match via {
                                    0 => Act::Run(i as u8 + 1),
                                    1 => Act::SendSe(i as u8 + 1, 0),
                                    _ => Act::Run(i as u8 + 1),
                                });
                                acts.push(Act::Mark);
                            } else {
                                for f in 0..fan {
                                    acts.push(match via {
                                        0 => Act::Run(target),
                                        1 => Act::SendSe(target, (f % NT) as u8),
                                        _ => Act::Broadcast(0),
                                    });
                                }
                                if dies == 1 {
                                    acts.push(Act::DespawnSys(target));
                                }
                                acts.push(Act::Mark);
                            }
                            if dies == 2 && i as u8 == target {
                                acts.push(Act::DespawnSys(target));
                            }
                            // later runs (replays) do nothing but mark
                            scripts.push(script(vec![acts, vec![Act::Mark]], false));
                        }
                        let mut setup = vec![];
                        for i in 0..depth {
                            if via == 2 && i as u8 == target {
                                setup.push(reg(Mode::Persistent, vec![Trig::Bc(0)], i as u8));
                            } else {
                                setup.push(Act::SpawnSys { flavour: if i % 2 == 1 { Flavour::Excl } else { Flavour::Ord }, script: i as u8 });
                            }
                        }
                        out.push(prog(
                            format!("recursion-d{depth}-f{fan}-b{back}-dies{dies}-via{via}"),
                            scripts,
                            vec![sys(setup), sys(vec![Act::Run(0), Act::Mark]), sys(vec![Act::Run(0)])],
                            ALL_COMPS,
                        ));
                    }
                }
            }
        }
    }
    out
}

/// C04 family: 6 event kinds x flavours x probe positions x probe forms.
pub fn family_probes() -> Vec<Program> {
    let mut out = vec![];
    let kinds = [DK::Se, DK::Bc, DK::Ee, DK::Mut, DK::Ins, DK::Res];
    for k in kinds {
        for fl in [Flavour::Ord, Flavour::Excl, Flavour::DropErr, Flavour::WarnErr] {
            for pos in 0..3 {
                for form in 0..3 {
                    // the reacting system's body: [filler..., probe, filler...]
                    let probe = match form {
                        0 => Act::Probe(false),
                        1 => Act::Probe(true),
                        _ => Act::Run(0), // re-run of the reactor itself
                    };
                    let mut body = vec![Act::Mark, Act::Broadcast(1), Act::Mark];
                    body.insert(match pos { 0 => 0, 1 => 2, _ => 3 }, probe);
                    let target = Act::Register { mode: Mode::Persistent, once: false, bundle: target_bundle(), flavour: fl, script: 0, form: pos as u8 };
                    let nested = reg(Mode::Persistent, vec![Trig::Bc(1)], 1);
                    out.push(prog(
                        format!("probes-{:?}-{:?}-p{pos}-f{form}", k, fl),
                        vec![script(vec![body], false), script(vec![vec![Act::Probe(false), Act::Probe(true)]], true)],
                        vec![sys(vec![target, nested]), sys(vec![delivery_act(k, 0, 0)]), sys(vec![Act::Probe(false)])],
                        ALL_COMPS,
                    ));
                }
            }
        }
    }
    out
}

/// C06/C16 family: revocation position x neighbours x kind, whole bundle or one trigger of a multi-registration
/// reactor (world reactor).
pub fn family_revocation() -> Vec<Program> {
    let mut out = vec![];
    let kinds: Vec<(Trig, Act)> = vec![
        (Trig::Bc(0), Act::Broadcast(0)),
        (Trig::Ee(0, 0), Act::EntityEv(0, 0)),
        (Trig::AnyEe(0), Act::EntityEv(1, 0)),
        (Trig::Ins(0), Act::Insert(0, 0, 1)),
        (Trig::Mut(0), Act::Access(0, 0, How::GetMut, 1)),
        (Trig::EIns(0, 0), Act::Insert(0, 0, 1)),
        (Trig::EMut(0, 0), Act::Access(0, 0, How::GetMut, 1)),
        (Trig::Res(0), Act::ResTrigger(0)),
        (Trig::Rem(0), Act::Remove(0, 0)),
        (Trig::ERem(0, 0), Act::Remove(0, 0)),
        (Trig::Desp(0), Act::DespawnEnt(0)),
    ];
    for (ki, (trig, fire)) in kinds.iter().enumerate() {
        for neighbours in 0..=3usize {
            for position in 0..=neighbours {
                for mid_tree in [false, true] {
                    for partial in [false, true] {
                        let mut setup = vec![];
                        let mut tok = 0u8;
                        for i in 0..=neighbours {
                            if i == position {
                                if partial {
                                    // a world reactor holding the trigger under two more registrations
                                    setup.push(Act::WrAdd(0, vec![*trig, Trig::Bc(1)]));
                                    setup.push(Act::WrAdd(0, vec![Trig::Ee(0, 1)]));
                                } else {
                                    setup.push(reg(Mode::Revokable, vec![*trig, Trig::Bc(1)], 0));
                                    tok = i as u8;
                                }
                            } else {
                                setup.push(reg(Mode::Revokable, vec![*trig], 0));
                            }
                        }
                        // tokens are numbered in registration order among revokable registrations
                        let tok = if partial { 0 } else { tok };
                        let revoke = if partial { Act::WrRemove(0, WrSel::Explicit(vec![*trig])) } else { Act::Revoke(tok) };
                        let mut scripts = vec![script(vec![], false)];
                        let ops = if mid_tree {
                            scripts.push(script(vec![vec![revoke.clone(), fire.clone(), Act::Broadcast(1), Act::EntityEv(0, 1), revoke.clone()]], false));
                            let mut s = setup.clone();
                            s.push(Act::SpawnSys { flavour: Flavour::Ord, script: 1 });
                            let runner_idx = if partial { neighbours as u8 } else { neighbours as u8 + 1 };
                            vec![sys(s), sys(vec![fire.clone()]), sys(vec![Act::Insert(0, 0, 0)]), sys(vec![Act::Run(runner_idx)]), sys(vec![fire.clone()])]
                        } else {
                            vec![
                                sys(setup),
                                sys(vec![fire.clone()]),
                                sys(vec![Act::Insert(0, 0, 0)]),
                                sys(vec![revoke.clone()]),
                                sys(vec![fire.clone(), Act::Broadcast(1), Act::EntityEv(0, 1)]),
                                sys(vec![revoke]),
                                sys(vec![Act::Insert(0, 0, 0), fire.clone()]),
                            ]
                        };
                        out.push(prog(format!("revocation-k{ki}-n{neighbours}-p{position}-mid{mid_tree}-partial{partial}"), scripts, ops, ALL_COMPS));
                    }
                }
            }
        }
    }
    out
}

/// C16 family: entity world reactor histories over two entities.
pub fn family_world_reactors() -> Vec<Program> {
    let mut out = vec![];
    let steps: Vec<(&str, Vec<Act>)> = vec![
        ("add", vec![Act::EwAdd(0, 0, 10), Act::EwAdd(0, 1, 20)]),
        ("trigger", vec![Act::Access(0, 0, How::GetMut, 1), Act::EntityEv(1, 0), Act::EntityEv(0, 0)]),
        ("partial_remove", vec![Act::EwRemove(0, 0, 1)]),
        ("trigger2", vec![Act::EntityEv(0, 0), Act::Access(0, 0, How::GetMut, 2), Act::Access(1, 0, How::GetMut, 2)]),
        ("full_remove", vec![Act::EwRemove(0, 0, 2)]),
        ("re_add", vec![Act::EwAdd(0, 0, 30)]),
        ("trigger3", vec![Act::EntityEv(0, 0), Act::EntityEv(1, 0)]),
        ("remove_all", vec![Act::EwRemove(0, 1, 0)]),
        ("add_two", vec![Act::EwAdd(0, 2, 40), Act::EwAdd(0, 3, 50), Act::EntityEv(3, 0)]),
        ("remove_two_entities_in_one_call", vec![Act::EwRemove(0, 2, 3), Act::Mark]),
        ("despawn", vec![Act::DespawnEnt(0)]),
        ("ew1", vec![Act::EwAdd(1, 2, 5), Act::Insert(2, 1, 3), Act::Remove(2, 1), Act::EwRemove(1, 2, 1), Act::Insert(2, 1, 4), Act::Remove(2, 1)]),
        ("wr", vec![Act::WrAdd(0, vec![Trig::Bc(0), Trig::Mut(0)]), Act::WrAdd(1, vec![Trig::Bc(0)]), Act::Broadcast(0), Act::WrRemove(0, WrSel::Added { which: 0, part: 1 }), Act::Broadcast(0), Act::Access(2, 0, How::GetMut, 9), Act::WrRun(0)]),
    ];
    // all prefixes, as separate ops and as one body
    for upto in 1..=steps.len() {
        for single_body in [false, true] {
            for skip in 0..upto {
                let sel: Vec<&(&str, Vec<Act>)> = steps[..upto].iter().enumerate().filter(|(i, _)| *i != skip || skip == 0).map(|(_, s)| s).collect();
                let ops: Vec<Op> = if single_body {
                    vec![sys(sel.iter().flat_map(|s| s.1.clone()).collect())]
                } else {
                    sel.iter().map(|s| sys(s.1.clone())).collect()
                };
                out.push(prog(format!("world-reactors-upto{upto}-skip{skip}-single{single_body}"), vec![script(vec![], false)], ops, ALL_COMPS));
            }
        }
    }
    out
}

pub fn directed_for(prop: &str, thorough: bool) -> Vec<Program> {
    let seq_kinds = [DK::Se, DK::Bc, DK::Ee, DK::Mut, DK::Ins];
    match prop {
        "C01" => {
            let mut v = family_listeners();
            v.extend(family_revocation());
            v
        }
        "C02" => family_recursion(),
        "C03" => family_sequences(if thorough { 4 } else { 3 }, &[DK::Se, DK::Bc, DK::Ee, DK::Mut, DK::Ins, DK::Res], "c03"),
        "C04" => family_probes(),
        "C05" => family_listeners(),
        "C06" => family_revocation(),
        "C07" => {
            let mut v = family_lifetime();
            v.extend(family_lifetime_inrun());
            v
        }
        "C08" => {
            let mut v = family_removals();
            v.extend(family_removals_app());
            v.extend(family_lifetime_inrun());
            v
        }
        "C09" => {
            let mut v = family_recursion();
            v.extend(family_sequences(2, &seq_kinds, "c09"));
            v
        }
        "C11" => {
            let mut v = family_recursion();
            v.extend(family_stale());
            v
        }
        "C12" => family_sequences(if thorough { 5 } else { 3 }, &[DK::Se, DK::Bc, DK::Ee, DK::Mut], "c12"),
        "C13" => family_recursion(),
        "C14" => family_accessors(),
        "C15" => family_lifetime().into_iter().filter(|p| p.name.contains("oncetrue")).collect(),
        "C16" => {
            let mut v = family_world_reactors();
            v.extend(family_revocation().into_iter().filter(|p| p.name.contains("partialtrue")));
            v
        }
        "C18" => family_stale(),
        _ => vec![],
    }
}
