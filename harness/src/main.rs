mod analysis;
mod dispatch;
mod exec;
mod monitors;
mod program;
mod trace;
mod types;

use std::collections::BTreeMap;
use std::sync::Arc;

fn main() {
    std::panic::set_hook(Box::new(|_| {}));
    let args: Vec<String> = std::env::args().collect();
    let seed: u64 = args.get(1).and_then(|s| s.parse().ok()).unwrap_or(1);
    let n: u64 = args.get(2).and_then(|s| s.parse().ok()).unwrap_or(1);
    let show: Option<&str> = args.get(3).map(|s| s.as_str());
    let p = program::Profile::base("base");
    let t0 = std::time::Instant::now();
    let mut hist: BTreeMap<String, (u64, u64)> = BTreeMap::new();
    let mut bad = 0;
    for s in seed..seed + n {
        let prog = Arc::new(program::gen_program(s, &p));
        let ex = exec::execute(&prog);
        let a = analysis::analyze(&prog, &ex.trace);
        let cx = monitors::Ctx { a: &a, dels: dispatch::deliveries(&a) };
        let mut any = false;
        let mut shown = false;
        for prop in monitors::ALL_PROPS {
            let (vs, _cov) = monitors::run_monitor(prop, &cx);
            for v in vs.iter() {
                any = true;
                let e = hist.entry(v.sig.clone()).or_insert((0, s));
                e.0 += 1;
                if show.map(|x| v.sig.starts_with(x)).unwrap_or(false) && !shown {
                    shown = true;
                    println!("=== seed {s}: {} @{}: {}", v.sig, v.pos, v.msg);
                    if args.get(4).is_some() {
                        dump_regs(&a);
                        println!("{}", serde_json::to_string(&*prog).unwrap());
                        for (i, e) in ex.trace.iter().enumerate() {
                            let s = format!("{:?}", e);
                            let s = if s.len() > 400 { format!("{}...", &s[..400]) } else { s };
                            println!("{i:4} {s}");
                        }
                    }
                }
            }
        }
        if any { bad += 1; }
    }
    for (k, (c, s)) in hist.iter() {
        println!("{c:8} first-seed={s:<8} {k}");
    }
    println!("programs={n} flagged={bad} wall={:?}", t0.elapsed());
}

#[allow(dead_code)]
pub fn dump_regs(a: &analysis::Analysis) {
    for r in a.regs.iter() {
        println!("REG {:?}", r);
    }
}
