mod acc;
mod analysis;
mod check;
mod dispatch;
mod exec;
mod meta;
mod monitors;
mod profiles;
mod program;
mod sysc;
mod threads;
mod trace;
mod types;

use std::collections::BTreeMap;
use std::sync::Arc;
use std::time::Duration;

fn arg(args: &[String], name: &str) -> Option<String> {
    args.iter().position(|a| a == name).and_then(|i| args.get(i + 1)).cloned()
}

fn main() {
    std::panic::set_hook(Box::new(|_| {}));
    let r = std::panic::catch_unwind(real_main);
    if let Err(p) = r {
        let msg = p.downcast_ref::<String>().cloned().or_else(|| p.downcast_ref::<&str>().map(|s| s.to_string())).unwrap_or_default();
        println!("INCONCLUSIVE: the harness itself failed: {msg}");
        std::process::exit(2);
    }
}

fn real_main() {
    let args: Vec<String> = std::env::args().collect();
    match args.get(1).map(|s| s.as_str()) {
        Some("check") => {
            let prop = arg(&args, "--prop").expect("--prop");
            let tier = arg(&args, "--tier").unwrap_or("quick".into());
            let seed: u64 = arg(&args, "--seed").and_then(|s| s.parse().ok()).unwrap_or(1);
            if prop == "C10" {
                let thorough = tier == "thorough";
                let cfg = threads::C10Config {
                    tier: tier.clone(),
                    seed,
                    out: arg(&args, "--out").unwrap_or("/verif/evidence/C10.json".into()),
                    replay_dir: arg(&args, "--replay-dir").unwrap_or("/verif/replays".into()),
                    sequences: arg(&args, "--programs").and_then(|s| s.parse().ok()).unwrap_or(if thorough { 500_000 } else { 20_000 }),
                    trials: arg(&args, "--trials").and_then(|s| s.parse().ok()).unwrap_or(if thorough { 5_000 } else { 300 }),
                    stage_notes: arg(&args, "--stage-notes"),
                    small: args.iter().any(|a| a == "--miri-small"),
                };
                let (v, inc) = threads::run_check(&cfg);
                if v > 0 {
                    std::process::exit(1);
                }
                if inc.is_some() {
                    std::process::exit(2);
                }
                return;
            }
            if prop == "C17" {
                let cfg = sysc::SyscConfig {
                    tier: tier.clone(),
                    seed,
                    out: arg(&args, "--out").unwrap_or("/verif/evidence/C17.json".into()),
                    replay_dir: arg(&args, "--replay-dir").unwrap_or("/verif/replays".into()),
                    sequences: arg(&args, "--programs").and_then(|s| s.parse().ok()).unwrap_or(if tier == "thorough" { 1_000_000 } else { 40_000 }),
                    no_floor: args.iter().any(|a| a == "--no-floor"),
                };
                let (v, inc) = sysc::run_check(&cfg);
                if v > 0 {
                    std::process::exit(1);
                }
                if inc.is_some() {
                    std::process::exit(2);
                }
                return;
            }
            let (n, cap) = check::tier_budget(&prop, &tier);
            let cfg = check::Config {
                prop: prop.clone(),
                tier: tier.clone(),
                seed,
                out: arg(&args, "--out").unwrap_or(format!("/verif/evidence/{prop}.json")),
                replay_dir: arg(&args, "--replay-dir").unwrap_or("/verif/replays".into()),
                known: arg(&args, "--known").unwrap_or("/verif/known_findings.json".into()),
                threads: arg(&args, "--threads").and_then(|s| s.parse().ok()).unwrap_or(16),
                random_programs: arg(&args, "--programs").and_then(|s| s.parse().ok()).unwrap_or(n),
                wall_cap: arg(&args, "--wall").and_then(|s| s.parse().ok()).map(Duration::from_secs).unwrap_or(cap),
                cross_every: arg(&args, "--cross-every").and_then(|s| s.parse().ok()).unwrap_or(10),
                directed_limit: arg(&args, "--directed-limit").and_then(|s| s.parse().ok()),
                no_floor: args.iter().any(|a| a == "--no-floor"),
                small: args.iter().any(|a| a == "--miri-small"),
            };
            let o = check::run_check(&cfg);
            if o.new_violations > 0 {
                std::process::exit(1);
            }
            if o.inconclusive.is_some() {
                std::process::exit(2);
            }
        }
        Some("replay") => {
            let hit = if args[2].contains("/C17-") { sysc::replay(&args[2]) } else if args[2].contains("/C10-") { threads::replay(&args[2]) } else { check::replay(&args[2]) };
            std::process::exit(if hit { 1 } else { 0 });
        }
        Some("survey") => survey(&args[2..]),
        _ => {
            eprintln!("usage: cobweb_verif check --prop Cxx --tier quick|thorough --seed N | replay FILE | survey SEED N [SIG [dump]] [--prop Cxx]");
            std::process::exit(2);
        }
    }
}

/// Development aid: run all monitors on random programs and print a histogram of violation signatures.
fn survey(args: &[String]) {
    let seed: u64 = args.first().and_then(|s| s.parse().ok()).unwrap_or(1);
    let n: u64 = args.get(1).and_then(|s| s.parse().ok()).unwrap_or(1);
    let show: Option<&str> = args.get(2).map(|s| s.as_str()).filter(|s| !s.starts_with("--"));
    let dump = args.get(3).map(|s| !s.starts_with("--")).unwrap_or(false);
    let prop = arg(args, "--prop");
    let directed = args.iter().any(|a| a == "--directed");
    let p = prop.as_deref().map(profiles::profile_for).unwrap_or(program::Profile::base("base"));
    let t0 = std::time::Instant::now();
    let mut hist: BTreeMap<String, (u64, String)> = BTreeMap::new();
    let mut bad = 0;
    let programs: Vec<program::Program> = if directed {
        profiles::directed_for(prop.as_deref().unwrap_or("C01"), true)
    } else {
        (seed..seed + n).map(|s| program::gen_program(s, &p)).collect()
    };
    let total = programs.len();
    for prog in programs {
        let prog = Arc::new(prog);
        let ex = exec::execute(&prog);
        let a = analysis::analyze(&prog, &ex.trace);
        let cx = monitors::Ctx { a: &a, dels: dispatch::deliveries(&a) };
        let mut any = false;
        let mut shown = false;
        // development aid: VERIF_DUMP_PROG=<name> prints the trace of that program whether or not a monitor fires
        if std::env::var("VERIF_DUMP_PROG").map(|n| n == prog.name).unwrap_or(false) {
            println!("{}", serde_json::to_string(&*prog).unwrap());
            for (i, e) in ex.trace.iter().enumerate() {
                let s = format!("{:?}", e);
                println!("{i:4} {}", if s.len() > 300 { &s[..300] } else { &s[..] });
            }
        }
        for prop in monitors::ALL_PROPS {
            let (vs, _cov) = monitors::run_monitor(prop, &cx);
            for v in vs.iter() {
                any = true;
                let e = hist.entry(v.sig.clone()).or_insert((0, prog.name.clone()));
                e.0 += 1;
                if show.map(|x| v.sig.starts_with(x)).unwrap_or(false) && !shown {
                    shown = true;
                    println!("=== {}: {} @{}: {}", prog.name, v.sig, v.pos, v.msg);
                    if dump {
                        for r in a.regs.iter() {
                            println!("REG {:?}", r);
                        }
                        println!("{}", serde_json::to_string(&*prog).unwrap());
                        for (i, e) in ex.trace.iter().enumerate() {
                            let s = format!("{:?}", e);
                            let s = if s.len() > 400 { format!("{}...", &s[..400]) } else { s };
                            println!("{i:4} {s}");
                        }
                    }
                }
            }
        }
        if any {
            bad += 1;
        }
    }
    for (k, (c, s)) in hist.iter() {
        println!("{c:8} first={s:<40} {k}");
    }
    println!("programs={total} flagged={bad} wall={:?}", t0.elapsed());
}
