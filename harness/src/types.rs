//! Static type universe of the harness: payloads, reactive components/resources, dynamic trigger bundles,
//! reader tuples and the observation vector `Obs`.

use bevy::prelude::*;
use bevy_cobweb::prelude::*;
use serde::{Deserialize, Serialize};
use std::sync::{Arc, Mutex, MutexGuard};

use crate::trace::{Ev, Shared};

/// Number of entity slots.
pub const NE: usize = 4;
/// Number of types per kind.
pub const NT: usize = 2;
/// Maximum number of system instances per world.
pub const MAX_INST: usize = 48;

pub fn lk<T>(m: &Mutex<T>) -> MutexGuard<'_, T> {
    m.lock().unwrap_or_else(|e| e.into_inner())
}

pub fn ebits(e: Entity) -> u64 {
    e.to_bits()
}

//-------------------------------------------------------------------------------------------------------------------
// Payloads

/// Event payload. K: 0 = broadcast, 1 = entity event, 2 = system event. N: type index.
pub struct Pay<const K: u8, const N: u8> {
    pub id: u32,
    pub sh: Arc<Shared>,
}
impl<const K: u8, const N: u8> Drop for Pay<K, N> {
    fn drop(&mut self) {
        self.sh.push(Ev::PayloadDrop { id: self.id });
    }
}
pub type Bc<const N: u8> = Pay<0, N>;
pub type Ee<const N: u8> = Pay<1, N>;
pub type Se<const N: u8> = Pay<2, N>;

/// Value captured by each harness system closure; its drop marks the release of the system state.
pub struct Canary {
    pub inst: usize,
    pub sh: Arc<Shared>,
}
impl Drop for Canary {
    fn drop(&mut self) {
        self.sh.push(Ev::CanaryDrop { inst: self.inst });
    }
}

//-------------------------------------------------------------------------------------------------------------------
// Reactive components and resources

#[derive(PartialEq, Clone, Copy, Debug)]
pub struct Rc<const N: u8>(pub u32);
impl<const N: u8> ReactComponent for Rc<N> {}

#[derive(PartialEq, Clone, Copy, Debug)]
pub struct Rr<const N: u8>(pub u32);
impl<const N: u8> ReactResource for Rr<N> {}

//-------------------------------------------------------------------------------------------------------------------
// Triggers

/// Abstract trigger (entity references are slot references, see `program::EntRef`).
#[derive(Clone, Copy, Debug, PartialEq, Eq, Hash, Serialize, Deserialize, PartialOrd, Ord)]
pub enum Trig {
    Bc(u8),
    Ee(u8, u8),
    AnyEe(u8),
    Ins(u8),
    Mut(u8),
    Rem(u8),
    EIns(u8, u8),
    EMut(u8, u8),
    ERem(u8, u8),
    Desp(u8),
    Res(u8),
}

impl Trig {
    /// Entity reference used by this trigger, if entity-scoped.
    pub fn ent_ref(&self) -> Option<u8> {
        match *self {
            Trig::Ee(s, _) | Trig::EIns(s, _) | Trig::EMut(s, _) | Trig::ERem(s, _) | Trig::Desp(s) => Some(s),
            _ => None,
        }
    }
    pub fn kind_index(&self) -> usize {
        match self {
            Trig::Bc(_) => 0,
            Trig::Ee(..) => 1,
            Trig::AnyEe(_) => 2,
            Trig::Ins(_) => 3,
            Trig::Mut(_) => 4,
            Trig::Rem(_) => 5,
            Trig::EIns(..) => 6,
            Trig::EMut(..) => 7,
            Trig::ERem(..) => 8,
            Trig::Desp(_) => 9,
            Trig::Res(_) => 10,
        }
    }
}

/// Resolved trigger: entity references replaced by concrete entities.
#[derive(Clone, Copy, Debug, PartialEq, Eq, Hash, Serialize)]
pub enum RTrig {
    Bc(u8),
    Ee(u64, u8),
    AnyEe(u8),
    Ins(u8),
    Mut(u8),
    Rem(u8),
    EIns(u64, u8),
    EMut(u64, u8),
    ERem(u64, u8),
    Desp(u64),
    Res(u8),
}

impl RTrig {
    pub fn entity(&self) -> Option<u64> {
        match *self {
            RTrig::Ee(e, _) | RTrig::EIns(e, _) | RTrig::EMut(e, _) | RTrig::ERem(e, _) | RTrig::Desp(e) => Some(e),
            _ => None,
        }
    }
    pub fn is_type_wide(&self) -> bool {
        self.entity().is_none()
    }
}

pub const MAX_BUNDLE: usize = 6;

/// A dynamically composed trigger bundle that dispatches to the crate's real trigger implementations.
#[derive(Clone, Copy)]
pub struct DynBundle {
    pub n: usize,
    pub t: [(Trig, Entity); MAX_BUNDLE],
}

impl DynBundle {
    pub fn new(items: &[(Trig, Entity)]) -> Self {
        let mut t = [(Trig::Bc(0), Entity::PLACEHOLDER); MAX_BUNDLE];
        let n = items.len().min(MAX_BUNDLE);
        t[..n].copy_from_slice(&items[..n]);
        DynBundle { n, t }
    }
    pub fn items(&self) -> &[(Trig, Entity)] {
        &self.t[..self.n]
    }
    pub fn resolved(&self) -> Vec<RTrig> {
        self.items().iter().map(|(t, e)| resolve(*t, *e)).collect()
    }
}

pub fn resolve(t: Trig, e: Entity) -> RTrig {
    let b = ebits(e);
    match t {
        Trig::Bc(n) => RTrig::Bc(n),
        Trig::Ee(_, n) => RTrig::Ee(b, n),
        Trig::AnyEe(n) => RTrig::AnyEe(n),
        Trig::Ins(n) => RTrig::Ins(n),
        Trig::Mut(n) => RTrig::Mut(n),
        Trig::Rem(n) => RTrig::Rem(n),
        Trig::EIns(_, n) => RTrig::EIns(b, n),
        Trig::EMut(_, n) => RTrig::EMut(b, n),
        Trig::ERem(_, n) => RTrig::ERem(b, n),
        Trig::Desp(_) => RTrig::Desp(b),
        Trig::Res(n) => RTrig::Res(n),
    }
}

trait DynReg {
    fn rtype(&self) -> ReactorType;
    fn reg(&self, c: &mut Commands, h: &ReactorHandle);
}
impl<T: ReactionTrigger> DynReg for T {
    fn rtype(&self) -> ReactorType {
        self.reactor_type()
    }
    fn reg(&self, c: &mut Commands, h: &ReactorHandle) {
        self.register(c, h)
    }
}

fn with_trig<R>(t: Trig, e: Entity, f: impl FnOnce(&dyn DynReg) -> R) -> R {
    match t {
        Trig::Bc(0) => f(&broadcast::<Bc<0>>()),
        Trig::Bc(_) => f(&broadcast::<Bc<1>>()),
        Trig::Ee(_, 0) => f(&entity_event::<Ee<0>>(e)),
        Trig::Ee(_, _) => f(&entity_event::<Ee<1>>(e)),
        Trig::AnyEe(0) => f(&any_entity_event::<Ee<0>>()),
        Trig::AnyEe(_) => f(&any_entity_event::<Ee<1>>()),
        Trig::Ins(0) => f(&insertion::<Rc<0>>()),
        Trig::Ins(_) => f(&insertion::<Rc<1>>()),
        Trig::Mut(0) => f(&mutation::<Rc<0>>()),
        Trig::Mut(_) => f(&mutation::<Rc<1>>()),
        Trig::Rem(0) => f(&removal::<Rc<0>>()),
        Trig::Rem(_) => f(&removal::<Rc<1>>()),
        Trig::EIns(_, 0) => f(&entity_insertion::<Rc<0>>(e)),
        Trig::EIns(_, _) => f(&entity_insertion::<Rc<1>>(e)),
        Trig::EMut(_, 0) => f(&entity_mutation::<Rc<0>>(e)),
        Trig::EMut(_, _) => f(&entity_mutation::<Rc<1>>(e)),
        Trig::ERem(_, 0) => f(&entity_removal::<Rc<0>>(e)),
        Trig::ERem(_, _) => f(&entity_removal::<Rc<1>>(e)),
        Trig::Desp(_) => f(&despawn(e)),
        Trig::Res(0) => f(&resource_mutation::<Rr<0>>()),
        Trig::Res(_) => f(&resource_mutation::<Rr<1>>()),
    }
}

impl ReactionTriggerBundle for DynBundle {
    fn len(&self) -> usize {
        self.n
    }
    fn collect_reactor_types(self, func: &mut impl FnMut(ReactorType)) {
        for (t, e) in self.items() {
            func(with_trig(*t, *e, |r| r.rtype()));
        }
    }
    fn register_triggers(self, c: &mut Commands, h: &ReactorHandle) {
        for (t, e) in self.items() {
            with_trig(*t, *e, |r| r.reg(c, h));
        }
    }
}

/// One dynamically chosen trigger that implements the crate's `ReactionTrigger`. Tuples of `OneTrig` therefore go
/// through the crate's own blanket impl for single triggers and its tuple impls of `ReactionTriggerBundle`
/// (`len`, `collect_reactor_types`, `register_triggers`), which a `DynBundle` bypasses.
#[derive(Clone, Copy)]
pub struct OneTrig(pub Trig, pub Entity);

impl ReactionTrigger for OneTrig {
    fn reactor_type(&self) -> ReactorType {
        with_trig(self.0, self.1, |r| r.rtype())
    }
    fn register(&self, c: &mut Commands, h: &ReactorHandle) {
        with_trig(self.0, self.1, |r| r.reg(c, h))
    }
}

/// A computation that is generic over the concrete bundle type.
pub trait BundleFn {
    type Out;
    fn call<B: ReactionTriggerBundle>(self, b: B) -> Self::Out;
}

/// Number of bundle shapes `with_bundle` distinguishes (shape 0 = `DynBundle`).
pub const N_SHAPES: u8 = 4;

/// Builds the bundle for `items` in the requested shape (0: `DynBundle`; 1: flat tuple of single triggers; 2, 3: nested
/// tuples / 1-tuples) and hands it to `f`.
pub fn with_bundle<F: BundleFn>(items: &[(Trig, Entity)], shape: u8, f: F) -> F::Out {
    let n = items.len().min(MAX_BUNDLE);
    let t = |i: usize| OneTrig(items[i].0, items[i].1);
    match (shape % N_SHAPES, n) {
        (0, _) => f.call(DynBundle::new(items)),
        (_, 0) => f.call(()),
        (1, 1) => f.call(t(0)),
        (_, 1) => f.call((t(0),)),
        (1, 2) => f.call((t(0), t(1))),
        (2, 2) => f.call(((t(0),), t(1))),
        (_, 2) => f.call((t(0), ((), t(1)))),
        (1, 3) => f.call((t(0), t(1), t(2))),
        (2, 3) => f.call(((t(0), t(1)), t(2))),
        (_, 3) => f.call((t(0), (t(1), t(2)))),
        (1, 4) => f.call((t(0), t(1), t(2), t(3))),
        (2, 4) => f.call(((t(0), t(1)), (t(2), t(3)))),
        (_, 4) => f.call((t(0), (t(1), (t(2),)), t(3))),
        (1, 5) => f.call((t(0), t(1), t(2), t(3), t(4))),
        (2, 5) => f.call((t(0), (t(1), t(2), t(3)), t(4))),
        (_, 5) => f.call(((t(0), t(1)), (), (t(2), t(3), t(4)))),
        (1, _) => f.call((t(0), t(1), t(2), t(3), t(4), t(5))),
        (2, _) => f.call(((t(0), t(1), t(2)), (t(3), t(4), t(5)))),
        (_, _) => f.call((t(0), (t(1), (t(2), (t(3), (t(4), t(5))))))),
    }
}

//-------------------------------------------------------------------------------------------------------------------
// Readers and observation vector

pub type Readers<'w, 's> = (
    (
        BroadcastEvent<'w, 's, Bc<0>>,
        BroadcastEvent<'w, 's, Bc<1>>,
        EntityEvent<'w, 's, Ee<0>>,
        EntityEvent<'w, 's, Ee<1>>,
        SystemEvent<'w, 's, Se<0>>,
        SystemEvent<'w, 's, Se<1>>,
    ),
    (
        InsertionEvent<'w, 's, Rc<0>>,
        InsertionEvent<'w, 's, Rc<1>>,
        MutationEvent<'w, 's, Rc<0>>,
        MutationEvent<'w, 's, Rc<1>>,
        RemovalEvent<'w, 's, Rc<0>>,
        RemovalEvent<'w, 's, Rc<1>>,
    ),
    DespawnEvent<'w>,
);

pub type Access<'w, 's> =
    (ReactiveMut<'w, 's, Rc<0>>, ReactiveMut<'w, 's, Rc<1>>, ReactResMut<'w, Rr<0>>, ReactResMut<'w, Rr<1>>);

/// Handles to the world reactors (absent in the bodies of entity world reactors, whose `EntityLocal` parameter already
/// borrows the reactor resource).
pub type WrAccess<'w> = (
    Reactor<'w, crate::exec::Wr<0>>,
    Reactor<'w, crate::exec::Wr<1>>,
    EntityReactor<'w, crate::exec::Ew<0>>,
    EntityReactor<'w, crate::exec::Ew<1>>,
);

/// Everything the readers of a run returned.
#[derive(Clone, Debug, Default, PartialEq, Eq, Serialize)]
pub struct Obs {
    pub bc: [Option<u32>; NT],
    pub ee: [Option<(u64, u32)>; NT],
    /// First take of each system event reader.
    pub se: [Option<u32>; NT],
    /// Second take (must always be None).
    pub se2: [Option<u32>; NT],
    pub ins: [Option<u64>; NT],
    pub mu: [Option<u64>; NT],
    pub rem: [Option<u64>; NT],
    pub desp: Option<u64>,
    /// `EntityLocal` of entity world reactors (entity, data before this run's increment).
    pub ew_local: Option<(u64, u32)>,
    /// Bit i set: the alternative forms of reader i (`is_empty`, `read`, `entity`, `get_entity`) disagreed with the
    /// `try_read` / `get` form. Reader order: bc0 bc1 ee0 ee1 ins0 ins1 mut0 mut1 rem0 rem1 desp.
    #[serde(default)]
    pub forms_disagree: u32,
}

/// One thing seen by a run.
#[derive(Clone, Copy, Debug, PartialEq, Eq, Hash, Serialize, PartialOrd, Ord)]
pub enum Seen {
    Bc(u8, u32),
    Ee(u8, u64, u32),
    Se(u8, u32),
    Ins(u8, u64),
    Mut(u8, u64),
    Rem(u8, u64),
    Desp(u64),
}

impl Obs {
    pub fn seen(&self) -> Vec<Seen> {
        let mut v = vec![];
        for n in 0..NT {
            if let Some(id) = self.bc[n] {
                v.push(Seen::Bc(n as u8, id));
            }
            if let Some((e, id)) = self.ee[n] {
                v.push(Seen::Ee(n as u8, e, id));
            }
            if let Some(id) = self.se[n] {
                v.push(Seen::Se(n as u8, id));
            }
            if let Some(e) = self.ins[n] {
                v.push(Seen::Ins(n as u8, e));
            }
            if let Some(e) = self.mu[n] {
                v.push(Seen::Mut(n as u8, e));
            }
            if let Some(e) = self.rem[n] {
                v.push(Seen::Rem(n as u8, e));
            }
        }
        if let Some(e) = self.desp {
            v.push(Seen::Desp(e));
        }
        v
    }
    pub fn count(&self) -> usize {
        self.seen().len()
    }
    pub fn second_take(&self) -> bool {
        self.se2.iter().any(|x| x.is_some())
    }
    pub fn payload_ids(&self) -> Vec<u32> {
        self.seen()
            .iter()
            .filter_map(|s| match s {
                Seen::Bc(_, id) | Seen::Ee(_, _, id) | Seen::Se(_, id) => Some(*id),
                _ => None,
            })
            .collect()
    }
}

/// Samples all readers. Returns the observation and the taken system event payloads (to be dropped by the caller
/// after the observation has been logged).
pub fn sample(r: &mut Readers) -> (Obs, Vec<Box<dyn std::any::Any + Send>>) {
    let ((b0, b1, e0, e1, s0, s1), (i0, i1, m0, m1, r0, r1), d) = r;
    let mut held: Vec<Box<dyn std::any::Any + Send>> = vec![];
    let mut obs = Obs::default();
    obs.bc = [b0.try_read().ok().map(|p| p.id), b1.try_read().ok().map(|p| p.id)];
    obs.ee = [
        e0.try_read().ok().map(|(e, p)| (ebits(e), p.id)),
        e1.try_read().ok().map(|(e, p)| (ebits(e), p.id)),
    ];
    // the convenience forms of every reader must agree with the fallible form (the panicking forms are only called
    // when the fallible form returned a value)
    let mut dis = 0u32;
    let mut chk = |bit: u32, ok: bool| {
        if !ok {
            dis |= 1 << bit;
        }
    };
    chk(0, b0.is_empty() == obs.bc[0].is_none() && obs.bc[0].map(|id| b0.read().id == id).unwrap_or(true));
    chk(1, b1.is_empty() == obs.bc[1].is_none() && obs.bc[1].map(|id| b1.read().id == id).unwrap_or(true));
    chk(
        2,
        e0.is_empty() == obs.ee[0].is_none()
            && e0.get_entity().ok().map(ebits) == obs.ee[0].map(|x| x.0)
            && obs.ee[0].map(|(e, id)| ebits(e0.entity()) == e && ebits(e0.read().0) == e && e0.read().1.id == id).unwrap_or(true),
    );
    chk(
        3,
        e1.is_empty() == obs.ee[1].is_none()
            && e1.get_entity().ok().map(ebits) == obs.ee[1].map(|x| x.0)
            && obs.ee[1].map(|(e, id)| ebits(e1.entity()) == e && ebits(e1.read().0) == e && e1.read().1.id == id).unwrap_or(true),
    );
    if let Ok(p) = s0.take() {
        obs.se[0] = Some(p.id);
        held.push(Box::new(p));
    }
    if let Ok(p) = s0.take() {
        obs.se2[0] = Some(p.id);
        held.push(Box::new(p));
    }
    if let Ok(p) = s1.take() {
        obs.se[1] = Some(p.id);
        held.push(Box::new(p));
    }
    if let Ok(p) = s1.take() {
        obs.se2[1] = Some(p.id);
        held.push(Box::new(p));
    }
    obs.ins = [i0.get().ok().map(ebits), i1.get().ok().map(ebits)];
    obs.mu = [m0.get().ok().map(ebits), m1.get().ok().map(ebits)];
    obs.rem = [r0.get().ok().map(ebits), r1.get().ok().map(ebits)];
    obs.desp = d.get().ok().map(ebits);
    chk(4, i0.is_empty() == obs.ins[0].is_none() && obs.ins[0].map(|e| ebits(i0.entity()) == e).unwrap_or(true));
    chk(5, i1.is_empty() == obs.ins[1].is_none() && obs.ins[1].map(|e| ebits(i1.entity()) == e).unwrap_or(true));
    chk(6, m0.is_empty() == obs.mu[0].is_none() && obs.mu[0].map(|e| ebits(m0.entity()) == e).unwrap_or(true));
    chk(7, m1.is_empty() == obs.mu[1].is_none() && obs.mu[1].map(|e| ebits(m1.entity()) == e).unwrap_or(true));
    chk(8, r0.is_empty() == obs.rem[0].is_none() && obs.rem[0].map(|e| ebits(r0.entity()) == e).unwrap_or(true));
    chk(9, r1.is_empty() == obs.rem[1].is_none() && obs.rem[1].map(|e| ebits(r1.entity()) == e).unwrap_or(true));
    chk(10, d.is_empty() == obs.desp.is_none() && obs.desp.map(|e| ebits(d.entity()) == e).unwrap_or(true));
    obs.forms_disagree = dis;
    (obs, held)
}
