//! C09 (depth-first telescoping order with postponed recursion) and C12 (same-sender delivery order).

use std::collections::BTreeMap;

use super::*;
use crate::analysis::*;
use crate::dispatch::*;
use crate::trace::*;
use crate::types::*;

fn op_skipped(a: &Analysis, op: usize) -> bool {
    matches!(&a.panicked, Some((p, _)) if *p == op) || a.ops.get(op).map(|o| o.quiescent.is_none()).unwrap_or(true)
}

fn polled_obs(obs: &Obs) -> bool {
    obs.seen().iter().any(|s| matches!(s, Seen::Rem(..) | Seen::Desp(..)))
}

pub fn c09(cx: &Ctx) -> (Vec<Violation>, Cover) {
    let a = cx.a;
    let mut v = vec![];
    let mut cov = Cover::default();
    let panicked_op = a.panicked.as_ref().map(|p| p.0);
    // 1. bracket structure
    if panicked_op.is_none() {
        for s in a.structural.iter() {
            v.push(Violation::new("C09", "C09/bracket-structure", s.clone(), 0));
        }
    }
    // 2. commands of one issuer take effect in the order queued, after the body, one after the other
    let mut by_run: BTreeMap<RunId, Vec<usize>> = BTreeMap::new();
    for (i, c) in a.cmds.iter().enumerate() {
        by_run.entry(c.run).or_default().push(i);
    }
    for (run, cmds) in by_run.iter() {
        let mut last_post: Option<usize> = a.run_of(*run).and_then(|r| r.body_end);
        let mut cmds = cmds.clone();
        cmds.sort_by_key(|i| a.cmds[*i].seq);
        for ci in cmds {
            let c = &a.cmds[ci];
            if Some(c.op) == panicked_op || matches!(c.act, RAct::Noop) || c.direct_in_body {
                continue;
            }
            cov.relevant = true;
            let (Some(pre), Some(post)) = (c.pre, c.post) else {
                if !op_skipped(a, c.op) {
                    v.push(Violation::new("C09", "C09/command-never-applied", format!("command {} {:?} of run {run} was never applied", c.cmd, c.act), c.issued_pos));
                }
                continue;
            };
            if let Some(lp) = last_post {
                if pre < lp {
                    v.push(Violation::new(
                        "C09",
                        "C09/queue-order",
                        format!("command {} {:?} of run {run} started at {pre}, before its predecessor finished at {lp}", c.cmd, c.act),
                        pre,
                    ));
                }
            }
            if post < pre {
                v.push(Violation::new("C09", "C09/queue-order", format!("command {} closes before it opens", c.cmd), post));
            }
            last_post = Some(post);
            if c.depth >= 3 {
                cov.nontrivial = true;
            }
        }
    }
    cov.count("max_depth", 0);
    let maxd = a.cmds.iter().map(|c| c.depth).max().unwrap_or(0);
    cov.count(
        match maxd {
            0 => "depth_0",
            1 => "depth_1",
            2 => "depth_2",
            3 => "depth_3",
            _ => "depth_4plus",
        },
        1,
    );
    // starts_before[p] = number of `RunStart` / `Pre` events at positions < p
    let mut starts_before: Vec<u32> = Vec::with_capacity(a.tr.len() + 1);
    {
        let mut n = 0u32;
        for e in a.tr.iter() {
            starts_before.push(n);
            if matches!(e, Ev::RunStart { .. } | Ev::Pre { .. }) {
                n += 1;
            }
        }
        starts_before.push(n);
    }
    // matching `Exit` of every runner `Enter` (positions)
    let mut exit_of: std::collections::HashMap<usize, usize> = std::collections::HashMap::new();
    {
        let mut st: Vec<usize> = vec![];
        for (p, e) in a.tr.iter().enumerate().take(a.end_pos) {
            match e {
                Ev::Hook(HookEv::Enter { .. }) => st.push(p),
                Ev::Hook(HookEv::Exit { .. }) => {
                    if let Some(s) = st.pop() {
                        exit_of.insert(s, p);
                    }
                }
                _ => {}
            }
        }
    }
    let mut scanned_upto: std::collections::HashMap<usize, usize> = std::collections::HashMap::new();
    // 3/4. in-line and postponed placement for payload deliveries
    for d in cx.dels.iter() {
        let Key::Pay(p) = d.key else { continue };
        let c = &a.cmds[d.cmd];
        if op_skipped(a, c.op) {
            continue;
        }
        let Some(pi) = a.pay_idx.get(&p) else { continue };
        for (ri, y) in a.pays[*pi].reads.iter().copied() {
            let r = &a.runs[ri];
            if y < d.pre {
                v.push(Violation::new("C09", "C09/run-before-command", format!("run {} read payload {p} at {y}, before its command was applied at {}", r.run, d.pre), y));
                continue;
            }
            match a.busy_run_at(r.inst, d.pre) {
                None => {
                    cov.count("inline_deliveries", 1);
                    if y > d.post {
                        v.push(Violation::new(
                            "C09",
                            format!("C09/inline-run-outside-command/{:?}", d.kind),
                            format!("instance {} was idle when {:?} was applied at {}..{} but its run {} started at {y}", r.inst, c.act, d.pre, d.post, r.run),
                            y,
                        ));
                    }
                }
                Some(xi) => {
                    let x = &a.runs[xi];
                    cov.count("postponed_deliveries", 1);
                    // was something queued after the busy execution (later sibling)?
                    let later_sibling = x.parent.map(|b| a.cmds[b].post.map(|bp| bp > x.busy_end + 1 && starts_before[bp] > starts_before[x.busy_end + 1]).unwrap_or(false)).unwrap_or(false)
                        || x.parent.map(|b| a.max_seq_of_run.get(&a.cmds[b].run).copied().unwrap_or(0) > a.cmds[b].seq).unwrap_or(false);
                    if later_sibling {
                        cov.nontrivial = true;
                    }
                    if y <= x.busy_end {
                        v.push(Violation::new(
                            "C09",
                            format!("C09/postponed-run-too-early/{:?}", d.kind),
                            format!("instance {} was executing run {} (until {}) but run {} for payload {p} started at {y}", r.inst, x.run, x.busy_end, r.run),
                            y,
                        ));
                        continue;
                    }
                    // immediately after: before the bracket that invoked X closes, ahead of anything else at X's level
                    let limit = match x.parent {
                        Some(b) => a.cmds[b].post,
                        None => a.ops.get(x.op).and_then(|o| if x.in_poll { o.poll_end } else { o.end }),
                    };
                    if let Some(l) = limit {
                        if y > l {
                            v.push(Violation::new(
                                "C09",
                                format!("C09/postponed-run-too-late/{:?}", d.kind),
                                format!("postponed run {} for payload {p} started at {y}, after the command that invoked run {} finished at {l}", r.run, x.run),
                                y,
                            ));
                            continue;
                        }
                    }
                    // Between the end of the busy execution and the postponed run, only replays for the same
                    // system and polled (removal / despawn) reactions may happen, each with its whole subtree.
                    let ient = a.insts[r.inst].ent;
                    if let (Some(re), Some(ex)) = (x.hook_run_end, x.hook_exit) {
                        if y < re || y > ex {
                            v.push(Violation::new(
                                "C09",
                                format!("C09/postponed-run-not-right-after-execution/{:?}", d.kind),
                                format!("postponed run {} of instance {} started at {y}, outside the window {re}..{ex} that follows the busy execution (run {})", r.run, r.inst, x.run),
                                y,
                            ));
                            continue;
                        }
                        // the window of one busy execution is checked incrementally: what an earlier (smaller y) check
                        // walked through without complaint need not be walked again
                        let mut z = (re + 1).max(scanned_upto.get(&xi).copied().unwrap_or(0));
                        let mut clean = true;
                        let mut top = z;
                        while z < y {
                            top = z;
                            let skip_to = |from: usize| -> usize { exit_of.get(&from).copied().unwrap_or(a.end_pos) };
                            match &a.tr[z] {
                                Ev::Hook(HookEv::Replay { target }) if *target == ient => {
                                    z = skip_to(z + 1) + 1;
                                }
                                Ev::Hook(HookEv::Apply { kind: HKind::Removal(_) | HKind::Despawn(_), .. }) => {
                                    z = skip_to(z + 1) + 1;
                                }
                                Ev::Hook(HookEv::Apply { target, kind }) => {
                                    v.push(Violation::new(
                                        "C09",
                                        format!("C09/postponed-run-overtaken/{:?}", d.kind),
                                        format!("a {:?} command for system {target} was processed at {z}, before the postponed run {} of instance {} (execution ended at {re})", kind, r.run, r.inst),
                                        z,
                                    ));
                                    clean = false;
                                    break;
                                }
                                Ev::Hook(HookEv::Replay { target }) => {
                                    v.push(Violation::new(
                                        "C09",
                                        format!("C09/postponed-run-overtaken/{:?}", d.kind),
                                        format!("a postponed command of another system {target} was replayed at {z}, before the postponed run {} of instance {}", r.run, r.inst),
                                        z,
                                    ));
                                    clean = false;
                                    break;
                                }
                                Ev::Pre { cmd, .. } if a.cmd_of(*cmd).map(|c2| c2.run == x.run).unwrap_or(false) => {
                                    // a command of the busy run itself (queued by its result handler after its deferred
                                    // commands had been applied) is still part of that execution: skip its bracket
                                    z = a.cmd_of(*cmd).and_then(|c2| c2.post).unwrap_or(z) + 1;
                                }
                                Ev::Pre { cmd, .. } => {
                                    v.push(Violation::new(
                                        "C09",
                                        format!("C09/postponed-run-overtaken-by-command/{:?}", d.kind),
                                        format!("command {cmd} started at {z}, before the postponed run {} of instance {} (execution ended at {re})", r.run, r.inst),
                                        z,
                                    ));
                                    clean = false;
                                    break;
                                }
                                _ => z += 1,
                            }
                        }
                        if clean {
                            // resume at the last top-level event of the window (the one whose subtree contains y)
                            scanned_upto.insert(xi, top);
                        }
                    }
                }
            }
        }
    }
    // payload-less in-line deliveries: the run is inside the bracket (lower bound; see C01 "inline")
    for d in cx.dels.iter() {
        if matches!(d.key, Key::Pay(_)) || op_skipped(a, a.cmds[d.cmd].op) {
            continue;
        }
        let obs = observed_inline(a, d);
        for e in d.exp.iter() {
            if e.certain == 0 || a.busy_at(e.inst, d.pre) || a.sys_alive_at(d.post, e.inst) != Some(true) {
                continue;
            }
            cov.count("inline_deliveries", 1);
            if obs.get(&e.inst).copied().unwrap_or(0) == 0 {
                v.push(Violation::new(
                    "C09",
                    format!("C09/inline-run-outside-command/{:?}", d.kind),
                    format!("instance {} was idle and alive when {:?} was applied at {}..{} but did not run inside it", e.inst, a.cmds[d.cmd].act, d.pre, d.post),
                    d.pre,
                ));
            }
        }
    }
    // "Commands queued by a system take effect in the order queued" also binds the commands of one run that were
    // postponed for the same busy target: they are replayed in the order they were queued (the black-box sequence
    // comparison is C12's; here only its verdicts about postponed deliveries are taken over).
    for viol in c12(cx).0 {
        if viol.sig.ends_with("/busy") {
            v.push(Violation::new("C09", viol.sig.replace("C12/reorder", "C09/postponed-commands-of-one-run-out-of-issue-order"), viol.msg, viol.pos));
        }
    }
    (v, cov)
}

pub fn c12(cx: &Ctx) -> (Vec<Violation>, Cover) {
    let a = cx.a;
    let mut v = vec![];
    let mut cov = Cover::default();
    // (sender run, target inst) -> deliveries in issue order: (seq, key, delivery index)
    let mut per: BTreeMap<(RunId, Inst), Vec<(u32, Key, usize)>> = BTreeMap::new();
    for (di, d) in cx.dels.iter().enumerate() {
        let c = &a.cmds[d.cmd];
        if op_skipped(a, c.op) {
            continue;
        }
        // direct (non-syscall) driver ops apply each action in its own flush: still "one run" for ordering purposes
        for e in d.exp.iter() {
            if e.total == 0 {
                continue;
            }
            per.entry((c.run, e.inst)).or_default().push((c.seq, d.key, di));
        }
    }
    // payload-less keys: how often each reaches a target per op, and which runs of the target observed it
    let mut delivered_idx: BTreeMap<(Key, usize, Inst), u32> = BTreeMap::new();
    for d2 in cx.dels.iter() {
        if matches!(d2.key, Key::Ins(..) | Key::Mut(..)) {
            let op = a.cmds[d2.cmd].op;
            for e in d2.exp.iter() {
                *delivered_idx.entry((d2.key, op, e.inst)).or_insert(0) += e.total;
            }
        }
    }
    let mut runs_idx: BTreeMap<(Inst, usize, Key), Vec<usize>> = BTreeMap::new();
    for r in a.runs.iter() {
        for k in sched_keys(a, &cx.dels, r) {
            if matches!(k, Key::Ins(..) | Key::Mut(..)) {
                runs_idx.entry((r.inst, r.op, k)).or_default().push(r.pos);
            }
        }
    }
    for ((sender, target), mut list) in per {
        list.sort_by_key(|x| x.0);
        cov.relevant = true;
        if list.len() >= 2 {
            cov.count("pairs_with_2plus_deliveries", 1);
            if list.iter().any(|(_, _, di)| a.busy_at(target, cx.dels[*di].pre)) {
                cov.nontrivial = true;
                cov.count("pairs_with_busy_target", 1);
            }
            let kinds: std::collections::BTreeSet<String> = list.iter().map(|(_, _, di)| format!("{:?}", cx.dels[*di].kind)).collect();
            if kinds.len() >= 2 {
                cov.count("pairs_with_mixed_kinds", 1);
            }
        }
        // observation position of each delivery, where it can be identified
        let mut seq_pos: Vec<(u32, usize, Key)> = vec![];
        for (seq, key, di) in list.iter() {
            let d = &cx.dels[*di];
            let op = a.cmds[d.cmd].op;
            match key {
                Key::Pay(p) => {
                    let Some(pi) = a.pay_idx.get(p) else { continue };
                    if let Some((_, pos)) = a.pays[*pi].reads.iter().find(|(ri, _)| a.runs[*ri].inst == target) {
                        seq_pos.push((*seq, *pos, *key));
                    }
                }
                Key::Ins(..) | Key::Mut(..) => {
                    // unambiguous only if this key reaches the target exactly once in the op
                    let delivered: u32 = delivered_idx.get(&(*key, op, target)).copied().unwrap_or(0);
                    let runs = runs_idx.get(&(target, op, *key));
                    if let (1, Some(rs)) = (delivered, runs) {
                        if rs.len() == 1 {
                            seq_pos.push((*seq, rs[0], *key));
                        }
                    }
                }
                _ => {}
            }
        }
        for w in seq_pos.windows(2) {
            if w[1].1 < w[0].1 {
                let kinds = format!("{}>{}", key_kind(a, &w[0].2), key_kind(a, &w[1].2));
                v.push(Violation::new(
                    "C12",
                    format!("C12/reorder/{kinds}/{}", if a.busy_at(target, cx.dels[list[0].2].pre) { "busy" } else { "idle" }),
                    format!(
                        "run {sender} sent {:?} (#{}) before {:?} (#{}) to instance {target}, which processed them in the opposite order (at {} and {})",
                        w[0].2, w[0].0, w[1].2, w[1].0, w[0].1, w[1].1
                    ),
                    w[1].1,
                ));
                break;
            }
        }
    }
    (v, cov)
}

fn key_kind(a: &Analysis, k: &Key) -> &'static str {
    match k {
        Key::Pay(p) => match a.pay_idx.get(p).map(|i| a.pays[*i].kind) {
            Some(0) => "broadcast",
            Some(1) => "entity-event",
            _ => "system-event",
        },
        Key::Ins(..) => "insertion",
        Key::Mut(..) => "mutation",
        Key::Empty => "empty",
        Key::Rem(..) => "removal",
        Key::Desp(_) => "despawn",
    }
}
