//! C01 (dispatch exactness), C06 (revocation), C15 (once reactors): the registration ledger against observed runs.

use std::collections::BTreeMap;

use super::*;
use crate::analysis::*;
use crate::dispatch::*;
use crate::trace::*;
use crate::types::*;

#[derive(Clone, Debug)]
pub struct Disc {
    pub del: Option<usize>,
    pub inst: Inst,
    pub observed: u32,
    pub lo: u32,
    pub hi: u32,
    pub extra: bool,
    pub scope: &'static str,
    pub kind: DKind,
    pub revoke_related: bool,
    pub once: bool,
    pub pos: usize,
    pub detail: String,
}

fn op_skipped(a: &Analysis, op: usize) -> bool {
    matches!(&a.panicked, Some((p, _)) if *p == op) || a.ops.get(op).map(|o| o.quiescent.is_none()).unwrap_or(true)
}

fn alive_whenever(a: &Analysis, inst: Inst, d: &Delivery) -> bool {
    let op = a.cmds[d.cmd].op;
    (a.sys_alive_at(d.post, inst) == Some(true) && !a.busy_at(inst, d.pre)) || a.alive_at_poll_end(op, inst)
}

pub fn discrepancies(cx: &Ctx) -> Vec<Disc> {
    let a = cx.a;
    let mut out = vec![];
    let is_once = |i: Inst| a.insts.get(i).map(|x| x.kind == SysKindTag::Once).unwrap_or(false);
    // runs that read nothing although they were started for an event (reader defects, C03): counted for the delivery
    // that started them. Empty on code whose readers work.
    let blind: Vec<(Inst, Key)> = a
        .runs
        .iter()
        .filter(|r| r.obs.seen().is_empty())
        .filter_map(|r| sched_keys(a, &cx.dels, r).first().copied().filter(|k| *k != Key::Empty).map(|k| (r.inst, k)))
        .collect();
    // per-trigger checks
    for (di, d) in cx.dels.iter().enumerate() {
        let op = a.cmds[d.cmd].op;
        if op_skipped(a, op) {
            continue;
        }
        match d.key {
            Key::Pay(p) => {
                let mut obs = observed_payload(a, p);
                for (inst, _) in blind.iter().filter(|(_, k)| *k == d.key) {
                    *obs.entry(*inst).or_insert(0) += 1;
                }
                for e in d.exp.iter() {
                    let o = obs.get(&e.inst).copied().unwrap_or(0);
                    let hi = if e.spent { 0 } else if is_once(e.inst) { e.total.min(1) } else { e.total };
                    let lo = if alive_whenever(a, e.inst, d) { e.certain.min(hi) } else { 0 };
                    if o > hi || o < lo {
                        out.push(Disc {
                            del: Some(di),
                            inst: e.inst,
                            observed: o,
                            lo,
                            hi,
                            extra: o > hi,
                            scope: "trigger",
                            kind: d.kind,
                            revoke_related: e.revoked_before || d.key_revoked_before,
                            once: is_once(e.inst),
                            pos: d.pre,
                            detail: format!("payload {p} cmd {:?}", a.cmds[d.cmd].act),
                        });
                    }
                }
                for (inst, o) in obs.iter() {
                    if !d.exp.iter().any(|e| e.inst == *inst) {
                        out.push(Disc {
                            del: Some(di),
                            inst: *inst,
                            observed: *o,
                            lo: 0,
                            hi: 0,
                            extra: true,
                            scope: "trigger",
                            kind: d.kind,
                            revoke_related: d.key_revoked_before,
                            once: is_once(*inst),
                            pos: d.pre,
                            detail: format!("payload {p} read by unregistered instance; cmd {:?}", a.cmds[d.cmd].act),
                        });
                    }
                }
            }
            _ => {
                // payload-less: in-line lower bound for idle, surviving instances
                let obs = observed_inline(a, d);
                for e in d.exp.iter() {
                    if e.spent || a.busy_at(e.inst, d.pre) || a.sys_alive_at(d.post, e.inst) != Some(true) {
                        continue;
                    }
                    let o = obs.get(&e.inst).copied().unwrap_or(0);
                    let lo = if is_once(e.inst) { e.certain.min(1) } else { e.certain };
                    if o < lo {
                        out.push(Disc {
                            del: Some(di),
                            inst: e.inst,
                            observed: o,
                            lo,
                            hi: e.total,
                            extra: false,
                            scope: "inline",
                            kind: d.kind,
                            revoke_related: e.revoked_before || d.key_revoked_before,
                            once: is_once(e.inst),
                            pos: d.pre,
                            detail: format!("cmd {:?}", a.cmds[d.cmd].act),
                        });
                    }
                }
            }
        }
    }
    // per-op equation for payload-less keys
    let mut exp: BTreeMap<(usize, Inst, Key), (u32, u32, bool, DKind, usize)> = BTreeMap::new();
    for d in cx.dels.iter() {
        if matches!(d.key, Key::Pay(_)) {
            continue;
        }
        let op = a.cmds[d.cmd].op;
        for e in d.exp.iter() {
            let ent = exp.entry((op, e.inst, d.key)).or_insert((0, 0, false, d.kind, d.pre));
            if e.spent {
                continue;
            }
            ent.1 += e.total;
            if a.alive_at_poll_end(op, e.inst) {
                ent.0 += e.certain;
            }
            ent.2 |= e.revoked_before || d.key_revoked_before;
        }
    }
    let mut obs: BTreeMap<(usize, Inst, Key), (u32, usize)> = BTreeMap::new();
    for r in a.runs.iter() {
        for k in sched_keys(a, &cx.dels, r) {
            if matches!(k, Key::Pay(_) | Key::Rem(..) | Key::Desp(_)) {
                continue;
            }
            let e = obs.entry((r.op, r.inst, k)).or_insert((0, r.pos));
            e.0 += 1;
        }
    }
    let kind_of_key = |k: &Key| match k {
        Key::Ins(..) => DKind::Insertion,
        Key::Mut(..) => DKind::Mutation,
        _ => DKind::Run,
    };
    for ((op, inst, key), (lo, hi, rev, kind, pos)) in exp.iter() {
        if op_skipped(a, *op) {
            continue;
        }
        let o = obs.get(&(*op, *inst, *key)).map(|x| x.0).unwrap_or(0);
        let (lo, hi) = if is_once(*inst) { ((*lo).min(1), (*hi).min(1)) } else { (*lo, *hi) };
        if o > hi || o < lo {
            out.push(Disc {
                del: None,
                inst: *inst,
                observed: o,
                lo,
                hi,
                extra: o > hi,
                scope: "op-equation",
                kind: *kind,
                revoke_related: *rev,
                once: is_once(*inst),
                pos: *pos,
                detail: format!("op {op} key {:?}", key),
            });
        }
    }
    for ((op, inst, key), (o, pos)) in obs.iter() {
        if op_skipped(a, *op) || exp.contains_key(&(*op, *inst, *key)) {
            continue;
        }
        // was a registration of this instance for this key revoked earlier?
        let rev = a.regs.iter().any(|r| r.inst == *inst && matches!(r.end, Some((p, EndWhy::Revoked)) if p < *pos));
        out.push(Disc {
            del: None,
            inst: *inst,
            observed: *o,
            lo: 0,
            hi: 0,
            extra: true,
            scope: "op-equation",
            kind: kind_of_key(key),
            revoke_related: rev,
            once: is_once(*inst),
            pos: *pos,
            detail: format!("op {op} key {:?}: run without any cause", key),
        });
    }
    out
}

fn to_violation(prop: &'static str, a: &Analysis, d: &Disc) -> Violation {
    let k = a.insts.get(d.inst).map(|i| format!("{:?}", i.kind)).unwrap_or_default();
    Violation::new(
        prop,
        format!("{prop}/{:?}/{}/{}", d.kind, if d.extra { "extra" } else { "missing" }, d.scope),
        format!(
            "instance {} ({k}) ran {}x, expected between {} and {}: {}",
            d.inst, d.observed, d.lo, d.hi, d.detail
        ),
        d.pos,
    )
}

pub fn c01(cx: &Ctx) -> (Vec<Violation>, Cover) {
    let a = cx.a;
    let mut cov = Cover::default();
    for d in cx.dels.iter() {
        if matches!(d.kind, DKind::Run | DKind::SystemEvent) {
            continue;
        }
        cov.relevant = true;
        let matching: u32 = d.exp.iter().map(|e| e.total).sum();
        if matching >= 2 || d.near_miss >= 1 {
            cov.nontrivial = true;
        }
        cov.count("triggers_applied", 1);
        cov.count(
            match matching {
                0 => "listeners_0",
                1 => "listeners_1",
                2 => "listeners_2",
                _ => "listeners_3plus",
            },
            1,
        );
        if a.cmds[d.cmd].depth > 0 {
            cov.count("triggers_mid_tree", 1);
        }
        if d.target_dead {
            cov.count("triggers_on_dead_target", 1);
        }
    }
    let v = discrepancies(cx)
        .iter()
        .filter(|d| !matches!(d.kind, DKind::Run | DKind::SystemEvent))
        .map(|d| to_violation("C01", a, d))
        .collect();
    (v, cov)
}

pub fn c06(cx: &Ctx) -> (Vec<Violation>, Cover) {
    let a = cx.a;
    let mut cov = Cover::default();
    let revokes: Vec<&CmdRec> = a
        .cmds
        .iter()
        .filter(|c| matches!(c.act, RAct::Revoke { .. } | RAct::WrRemove { .. } | RAct::EwRemove { .. }) && c.post.is_some())
        .collect();
    if !revokes.is_empty() {
        cov.relevant = true;
        cov.count("revocations", revokes.len() as u64);
        cov.count("revocations_mid_tree", revokes.iter().filter(|c| c.depth > 0).count() as u64);
    }
    for d in cx.dels.iter() {
        if d.key_revoked_before && d.exp.iter().any(|e| e.total > 0) {
            cov.nontrivial = true;
            cov.count("triggers_after_revoke_with_survivors", 1);
        }
        if d.exp.iter().any(|e| e.revoked_before && e.total > 0) {
            cov.count("partial_revocation_exercised", 1);
        }
    }
    let mut v: Vec<Violation> =
        discrepancies(cx).iter().filter(|d| d.revoke_related).map(|d| to_violation("C06", a, d)).collect();
    // removal / despawn triggers named by a revocation must not schedule the reactor again either; neighbours keep
    // working: polled discrepancies of instances / keys that a revocation touched earlier
    for d in super::polled::polled_discrepancies(cx) {
        let trig_matches = |t: &RTrig| match (d.key, t) {
            (Key::Rem(c, e), RTrig::ERem(e2, c2)) => c == *c2 && e == *e2,
            (Key::Rem(c, _), RTrig::Rem(c2)) => c == *c2,
            (Key::Desp(e), RTrig::Desp(e2)) => e == *e2,
            _ => false,
        };
        let related = a.regs.iter().any(|r| trig_matches(&r.trig) && matches!(r.end, Some((p, EndWhy::Revoked)) if p < d.pos.max(a.ops.get(d.op).and_then(|o| o.poll_end).unwrap_or(d.pos))));
        if related {
            v.push(Violation::new("C06", format!("C06/polled-trigger/{}/{}", d.what, d.class), d.msg.clone(), d.pos));
        }
    }
    // table sizes at quiescent points: revoked entries are really gone, neighbours kept
    v.extend(table_check(cx, "C06", true));
    // ... and immediately: the tables sampled right before / after every revocation command agree with the ledger
    for c in a.cmds.iter() {
        let (Some(pre), Some(post)) = (c.pre, c.post) else { continue };
        for (pos, n) in c.notes.iter() {
            let Note::Tables { phase, tables, entity_entries } = n else { continue };
            let at = if *phase == 0 { pre } else { post };
            let (lo, hi) = ledger_counts(a, at, *pos);
            cov.count("revocations_with_immediate_table_check", (*phase == 1) as u64);
            let names = ["insertion", "mutation", "removal", "resource", "broadcast", "any_entity_event", "despawn", "entity"];
            for i in 0..8 {
                let got = if i < 7 { tables[i] } else { *entity_entries };
                if got < lo[i] || got > hi[i] {
                    v.push(Violation::new(
                        "C06",
                        format!("C06/table-at-revoke/{}/{}/{}", names[i], if *phase == 0 { "before" } else { "after" }, if got > hi[i] { "leftover" } else { "lost" }),
                        format!("{:?}: {} table holds {} entries {} the revocation, ledger says {}..{}", c.act, names[i], got, if *phase == 0 { "before" } else { "after" }, lo[i], hi[i]),
                        *pos,
                    ));
                    break;
                }
            }
        }
    }
    (v, cov)
}

/// Ledger counts per table at ledger position `at`; liveness of entities is taken from the facts sampled at `at`.
/// Despawn registrations whose entity is gone but which have not been polled yet are still in the table: they are
/// allowed (hi) but not required (lo).
pub fn ledger_counts(a: &Analysis, at: usize, _sample_pos: usize) -> ([usize; 8], [usize; 8]) {
    let mut lo = [0usize; 8];
    let mut hi = [0usize; 8];
    for r in a.regs.iter().filter(|r| r.live_at(at)) {
        let mut uncertain = !r.certain;
        // A one-off reactor revokes its own triggers at some point of its only run (C15 only says that none remains
        // afterwards): from the start of that run on its registrations may or may not still be in the tables.
        if a.insts.get(r.inst).map(|i| i.kind == SysKindTag::Once).unwrap_or(false)
            && a.runs_of_inst.get(r.inst).and_then(|l| l.first()).map(|ri| a.runs[*ri].pos < at).unwrap_or(false)
        {
            uncertain = true;
        }
        let idx = match r.trig {
            RTrig::Ins(_) => 0,
            RTrig::Mut(_) => 1,
            RTrig::Rem(_) => 2,
            RTrig::Res(_) => 3,
            RTrig::Bc(_) => 4,
            RTrig::AnyEe(_) => 5,
            RTrig::Desp(e) => {
                if a.ent_alive_at(at, e) != Some(true) {
                    // fired, waiting for the next poll
                    uncertain = true;
                }
                6
            }
            RTrig::Ee(e, _) | RTrig::EIns(e, _) | RTrig::EMut(e, _) | RTrig::ERem(e, _) => {
                if a.ent_alive_at(at, e) != Some(true) {
                    continue;
                }
                7
            }
        };
        hi[idx] += 1;
        if !uncertain {
            lo[idx] += 1;
        }
    }
    (lo, hi)
}

/// Compares the snapshot's table sizes with the ledger at every quiescent point.
pub fn table_check(cx: &Ctx, prop: &'static str, only_after_revoke: bool) -> Vec<Violation> {
    let a = cx.a;
    let mut v = vec![];
    for o in a.ops.iter() {
        let Some(q) = o.quiescent else { continue };
        let Ev::Quiescent { snap, .. } = &a.tr[q] else { continue };
        if only_after_revoke
            && !a.cmds.iter().any(|c| {
                matches!(c.act, RAct::Revoke { .. } | RAct::WrRemove { .. } | RAct::EwRemove { .. })
                    && c.post.map(|p| p < q).unwrap_or(false)
            })
        {
            continue;
        }
        // ledger counts: [ins, mut, rem, res, bc, anyee, desp], entity entries
        let mut lo = [0usize; 8];
        let mut hi = [0usize; 8];
        for r in a.regs.iter().filter(|r| r.live_at(q)) {
            let idx = match r.trig {
                RTrig::Ins(_) => 0,
                RTrig::Mut(_) => 1,
                RTrig::Rem(_) => 2,
                RTrig::Res(_) => 3,
                RTrig::Bc(_) => 4,
                RTrig::AnyEe(_) => 5,
                RTrig::Desp(e) => {
                    if a.ent_alive_at(q, e) != Some(true) {
                        continue;
                    }
                    6
                }
                RTrig::Ee(e, _) | RTrig::EIns(e, _) | RTrig::EMut(e, _) | RTrig::ERem(e, _) => {
                    if a.ent_alive_at(q, e) != Some(true) {
                        continue;
                    }
                    7
                }
            };
            hi[idx] += 1;
            if r.certain {
                lo[idx] += 1;
            }
        }
        let names = ["insertion", "mutation", "removal", "resource", "broadcast", "any_entity_event", "despawn", "entity"];
        for i in 0..8 {
            let got = if i < 7 { snap.tables[i] } else { snap.entity_reactor_entries };
            if got < lo[i] || got > hi[i] {
                v.push(Violation::new(
                    prop,
                    format!("{prop}/table/{}/{}", names[i], if got > hi[i] { "leftover" } else { "lost" }),
                    format!("op {}: {} table holds {} entries, ledger says {}..{}", o.op, names[i], got, lo[i], hi[i]),
                    q,
                ));
            }
        }
    }
    v
}

pub fn c15(cx: &Ctx) -> (Vec<Violation>, Cover) {
    let a = cx.a;
    let mut cov = Cover::default();
    let mut v: Vec<Violation> = vec![];
    for (inst, info) in a.insts.iter().enumerate() {
        if info.kind != SysKindTag::Once {
            continue;
        }
        cov.relevant = true;
        cov.count("once_reactors", 1);
        let runs: Vec<&RunRec> = a.runs.iter().filter(|r| r.inst == inst).collect();
        if runs.len() > 1 {
            v.push(Violation::new("C15", "C15/ran-twice", format!("once reactor {inst} ran {} times", runs.len()), runs[1].pos));
        }
        // scheduled applications: deliveries that expected it
        let sched: u32 = cx.dels.iter().flat_map(|d| d.exp.iter()).filter(|e| e.inst == inst).map(|e| e.total).sum();
        if sched >= 2 {
            cov.nontrivial = true;
            cov.count("once_with_multiple_applications", 1);
        }
        if !runs.is_empty() {
            cov.count("once_ran", 1);
        }
        // after its run (or revocation / empty bundle): gone at the next quiescent point, state dropped
        let regs: Vec<&Reg> = a.regs.iter().filter(|r| r.inst == inst).collect();
        for o in a.ops.iter() {
            let Some(q) = o.quiescent else { continue };
            if info.created_pos > q {
                continue;
            }
            let published = info.published_pos.map(|p| p < q).unwrap_or(false);
            if !published {
                continue;
            }
            let ran = runs.first().map(|r| r.pos < q).unwrap_or(false);
            let holding = regs.iter().any(|r| {
                r.live_at(q)
                    && match r.trig.entity() {
                        Some(e) => a.ent_alive_at(q, e) == Some(true),
                        None => true,
                    }
            });
            let alive = a.sys_alive_at(q, inst) == Some(true);
            let explicit = info.explicit_despawn.map(|p| p < q).unwrap_or(false);
            let should_live = !ran && holding && !explicit;
            if alive && !should_live {
                v.push(Violation::new(
                    "C15",
                    format!("C15/not-gone/{}", if ran { "after-run" } else { "no-trigger-left" }),
                    format!("once reactor {inst} still exists at quiescent point of op {} (ran={ran}, holding={holding})", o.op),
                    q,
                ));
                break;
            }
            if !alive && should_live {
                v.push(Violation::new(
                    "C15",
                    "C15/gone-early",
                    format!("once reactor {inst} vanished before running although triggers remain (op {})", o.op),
                    q,
                ));
                break;
            }
            // (the zero-sized body's canary lives in a `Local`: it exists only if the reactor ran)
            let drops = info.canary_drops.iter().filter(|p| **p < q).count();
            let never_ran_zst = info.flavour == crate::program::Flavour::Zst && !ran;
            if !alive && drops != 1 && !(never_ran_zst && drops == 0) {
                v.push(Violation::new(
                    "C15",
                    "C15/state-not-dropped",
                    format!("once reactor {inst} is gone but its captured state was dropped {} times", info.canary_drops.len()),
                    q,
                ));
                break;
            }
        }
    }
    // ledger exactness restricted to once instances
    v.extend(discrepancies(cx).iter().filter(|d| d.once).map(|d| to_violation("C15", a, d)));
    // ... and the same for their removal / despawn triggers, which are detected by polling
    for d in super::polled::polled_discrepancies(cx) {
        if a.insts.get(d.inst).map(|i| i.kind == SysKindTag::Once).unwrap_or(false) {
            v.push(Violation::new("C15", format!("C15/polled-trigger/{}/{}", d.what, d.class), d.msg.clone(), d.pos));
        }
    }
    // registrations of finished once reactors are gone from the tables
    if cov.relevant {
        v.extend(table_check(cx, "C15", false));
    }
    (v, cov)
}
