//! C03 (a run sees exactly its event), C04 (invisible elsewhere), C05 (payload release).

use super::*;
use crate::analysis::*;
use crate::dispatch::*;
use crate::trace::*;
use crate::types::*;

fn op_skipped(a: &Analysis, op: usize) -> bool {
    matches!(&a.panicked, Some((p, _)) if *p == op) || a.ops.get(op).map(|o| o.quiescent.is_none()).unwrap_or(true)
}

fn reader_names(bits: u32) -> String {
    const N: [&str; 11] = ["bc0", "bc1", "ee0", "ee1", "ins0", "ins1", "mut0", "mut1", "rem0", "rem1", "desp"];
    (0..11).filter(|i| bits & (1 << i) != 0).map(|i| N[i]).collect::<Vec<_>>().join("+")
}

fn seen_kind(s: &Seen) -> &'static str {
    match s {
        Seen::Bc(..) => "broadcast",
        Seen::Ee(..) => "entity-event",
        Seen::Se(..) => "system-event",
        Seen::Ins(..) => "insertion",
        Seen::Mut(..) => "mutation",
        Seen::Rem(..) => "removal",
        Seen::Desp(..) => "despawn",
    }
}

/// What a run caused in-line by delivery `d` must see.
fn expected_seen(a: &Analysis, d: &Delivery) -> Option<Vec<Seen>> {
    let c = &a.cmds[d.cmd];
    Some(match &c.act {
        RAct::Broadcast { ty, pay } => vec![Seen::Bc(*ty, *pay)],
        RAct::EntityEv { ent, ty, pay } => vec![Seen::Ee(*ty, *ent, *pay)],
        RAct::SendSe { ty, pay, .. } => vec![Seen::Se(*ty, *pay)],
        RAct::Insert { ent, comp, .. } => vec![Seen::Ins(*comp, *ent)],
        RAct::Access { ent, comp, .. } | RAct::TriggerMutation { ent, comp } => vec![Seen::Mut(*comp, *ent)],
        RAct::ResAccess { .. } | RAct::ResTrigger { .. } | RAct::Run { .. } | RAct::WrRun { .. } => vec![],
        _ => return None,
    })
}

pub fn c03(cx: &Ctx) -> (Vec<Violation>, Cover) {
    let a = cx.a;
    let mut v = vec![];
    let mut cov = Cover::default();
    for r in a.runs.iter() {
        cov.relevant = true;
        let seen = r.obs.seen();
        cov.count("runs", 1);
        if !seen.is_empty() {
            cov.count("runs_with_event", 1);
        }
        if seen.len() > 1 {
            let mut kinds: Vec<&str> = seen.iter().map(seen_kind).collect();
            kinds.sort();
            v.push(Violation::new(
                "C03",
                format!("C03/impure/{}", kinds.join("+")),
                format!("run {} of instance {} sees {} events at once: {:?}", r.run, r.inst, seen.len(), seen),
                r.pos,
            ));
        }
        // `is_empty` / `read` / `entity` / `get_entity` agree with `try_read` / `get`
        if r.obs.forms_disagree != 0 {
            v.push(Violation::new(
                "C03",
                format!("C03/reader-forms-disagree/{}", reader_names(r.obs.forms_disagree)),
                format!("run {} of instance {}: the convenience forms of readers {} do not agree with the fallible form ({:?})", r.run, r.inst, reader_names(r.obs.forms_disagree), seen),
                r.pos,
            ));
        }
        // every payload read is the right kind/type/target
        for s in seen.iter() {
            let (id, want_kind, ty) = match s {
                Seen::Bc(t, id) => (*id, 0u8, *t),
                Seen::Ee(t, _, id) => (*id, 1, *t),
                Seen::Se(t, id) => (*id, 2, *t),
                _ => continue,
            };
            let Some(p) = a.pay_idx.get(&id).map(|i| &a.pays[*i]) else { continue };
            if p.kind != want_kind || p.ty != ty {
                v.push(Violation::new(
                    "C03",
                    "C03/wrong-reader",
                    format!("run {} read payload {id} (kind {} type {}) through a {} reader of type {ty}", r.run, p.kind, p.ty, seen_kind(s)),
                    r.pos,
                ));
            }
            if let Seen::Ee(_, e, _) = s {
                if p.ent != Some(*e) {
                    v.push(Violation::new(
                        "C03",
                        "C03/wrong-target-entity",
                        format!("run {} read entity event {id} with target {e}, sent to {:?}", r.run, p.ent),
                        r.pos,
                    ));
                }
            }
            if p.kind == 2 && p.target_inst != Some(r.inst) {
                v.push(Violation::new(
                    "C03",
                    "C03/system-event-misdelivered",
                    format!("system event {id} for instance {:?} was read by instance {}", p.target_inst, r.inst),
                    r.pos,
                ));
            }
        }
        // entity-world-reactor local data belongs to the source of the reaction
        if let Some((e, _)) = r.obs.ew_local {
            let src: Vec<u64> = seen
                .iter()
                .filter_map(|s| match s {
                    Seen::Ee(_, e, _) | Seen::Ins(_, e) | Seen::Mut(_, e) | Seen::Rem(_, e) => Some(*e),
                    _ => None,
                })
                .collect();
            if !src.is_empty() && !src.contains(&e) {
                v.push(Violation::new(
                    "C03",
                    "C03/entity-local-of-other-entity",
                    format!("run {} reacts to {:?} but EntityLocal is for entity {e}", r.run, seen),
                    r.pos,
                ));
            }
        }
        // pending deliveries when this run started (non-trivial shape)
        if a.runner_depth.get(r.pos).copied().unwrap_or(0) >= 2 {
            cov.count("runs_nested", 1);
        }
    }
    // in-line exactness: the first direct-child run of an idle listener inside the bracket of a delivery sees
    // exactly that delivery's event
    for d in cx.dels.iter() {
        let Some(want) = expected_seen(a, d) else { continue };
        if op_skipped(a, a.cmds[d.cmd].op) {
            continue;
        }
        for e in d.exp.iter() {
            if e.total == 0 || e.spent || a.busy_at(e.inst, d.pre) {
                continue;
            }
            let first = a.runs_in(d.pre, d.post).iter().find(|r| {
                r.inst == e.inst
                    && r.pos > d.pre
                    && r.pos < d.post
                    && r.parent == Some(d.cmd)
                    && !r.replay
                    && !r.obs.seen().iter().any(|s| matches!(s, Seen::Rem(..) | Seen::Desp(..)))
            });
            let Some(r) = first else { continue };
            let got = r.obs.seen();
            if got != want {
                v.push(Violation::new(
                    "C03",
                    format!("C03/inline-mismatch/{:?}", d.kind),
                    format!(
                        "run {} of instance {} was caused in-line by {:?} but sees {:?} instead of {:?}",
                        r.run, r.inst, a.cmds[d.cmd].act, got, want
                    ),
                    r.pos,
                ));
            }
        }
    }
    // bijection for postponed deliveries: per instance and op, the multiset of observations equals the multiset of
    // deliveries (payload kinds by id). A run that saw nothing although a payload delivery for it is unaccounted
    // is reported here (the count itself is C01's).
    for d in cx.dels.iter() {
        let Key::Pay(p) = d.key else { continue };
        let op = a.cmds[d.cmd].op;
        if op_skipped(a, op) {
            continue;
        }
        for e in d.exp.iter() {
            if a.busy_at(e.inst, d.pre) {
                cov.nontrivial = true;
                cov.count("deliveries_postponed", 1);
                let obs = observed_payload(a, p).get(&e.inst).copied().unwrap_or(0);
                if obs < e.certain && a.alive_at_poll_end(op, e.inst) {
                    v.push(Violation::new(
                        "C03",
                        format!("C03/postponed-delivery-unseen/{:?}", d.kind),
                        format!("instance {} was busy when payload {p} was delivered; no later run of it saw the payload", e.inst),
                        d.pre,
                    ));
                }
            }
        }
    }
    (v, cov)
}

pub fn c04(cx: &Ctx) -> (Vec<Violation>, Cover) {
    let a = cx.a;
    let mut v = vec![];
    let mut cov = Cover::default();
    // payload liveness intervals for the non-trivial rule
    let alive_payload_at = |pos: usize| {
        a.pays.iter().any(|p| a.cmds[p.cmd].issued_pos < pos && p.drops.first().map(|d| *d > pos).unwrap_or(true))
    };
    // probes
    for c in a.cmds.iter() {
        let RAct::Probe { via_syscall } = c.act else { continue };
        cov.relevant = true;
        cov.count("probes", 1);
        if c.depth > 0 {
            cov.count("probes_mid_tree", 1);
        }
        let (obs, pos) = if via_syscall {
            match &c.probe_obs {
                Some((p, o)) => (o.clone(), *p),
                None => continue,
            }
        } else {
            let (Some(pre), Some(post)) = (c.pre, c.post) else { continue };
            let ci = a.cmd_idx[&c.cmd];
            match a.runs_in(pre, post).iter().find(|r| r.pos > pre && r.pos < post && r.parent == Some(ci) && a.insts[r.inst].kind == SysKindTag::Probe) {
                Some(r) => (r.obs.clone(), r.pos),
                None => continue,
            }
        };
        if alive_payload_at(pos) {
            cov.nontrivial = true;
            cov.count("probes_while_payload_alive", 1);
        }
        if a.runner_depth.get(pos).copied().unwrap_or(0) >= 2 {
            cov.count("probes_inside_reaction", 1);
        }
        if obs.forms_disagree != 0 {
            v.push(Violation::new(
                "C04",
                format!("C04/probe-reader-forms-disagree/{}", reader_names(obs.forms_disagree)),
                format!("probe queued by run {}: `is_empty` and friends of readers {} disagree with the fallible form", c.run, reader_names(obs.forms_disagree)),
                pos,
            ));
        }
        if obs.count() > 0 || obs.second_take() {
            v.push(Violation::new(
                "C04",
                format!("C04/probe-sees-event/{}", obs.seen().first().map(seen_kind).unwrap_or("second-take")),
                format!("probe queued by run {} observed {:?}", c.run, obs.seen()),
                pos,
            ));
        }
    }
    // manual / resource-caused runs see nothing
    for d in cx.dels.iter() {
        if !matches!(d.kind, DKind::Run | DKind::Resource) {
            continue;
        }
        cov.relevant = true;
        for e in d.exp.iter() {
            if a.busy_at(e.inst, d.pre) {
                continue;
            }
            for r in a.runs_in(d.pre, d.post).iter().filter(|r| r.inst == e.inst && r.pos > d.pre && r.pos < d.post && r.parent == Some(d.cmd) && !r.replay && !r.obs.seen().iter().any(|s| matches!(s, Seen::Rem(..) | Seen::Desp(..)))).take(1) {
                if r.obs.seen().iter().any(|s| matches!(s, Seen::Rem(..) | Seen::Desp(..))) {
                    continue;
                }
                cov.count("manual_or_resource_runs", 1);
                if alive_payload_at(r.pos) {
                    cov.nontrivial = true;
                }
                if r.obs.count() > 0 {
                    v.push(Violation::new(
                        "C04",
                        format!("C04/non-reacting-run-sees-event/{:?}", d.kind),
                        format!("run {} of instance {} caused by {:?} observed {:?}", r.run, r.inst, a.cmds[d.cmd].act, r.obs.seen()),
                        r.pos,
                    ));
                }
            }
        }
    }
    for r in a.runs.iter() {
        // a system-event payload can be taken at most once
        if r.obs.second_take() {
            v.push(Violation::new("C04", "C04/second-take", format!("run {} took a system event twice: {:?}", r.run, r.obs.se2), r.pos));
        }
        // data readable after its release
        for id in r.obs.payload_ids() {
            if let Some(p) = a.pay_idx.get(&id).map(|i| &a.pays[*i]) {
                if p.kind != 2 && p.drops.first().map(|d| *d < r.pos).unwrap_or(false) {
                    v.push(Violation::new("C04", "C04/read-after-release", format!("run {} read payload {id} after it was dropped", r.run), r.pos));
                }
                // a reacting run reads only its own event: event of another delivery visible to a run that is
                // reacting to something else is an impure vector (C03) -- here: reads by instances that were never
                // scheduled for it
                let d = cx.dels.iter().find(|d| d.key == Key::Pay(id));
                if let Some(d) = d {
                    if !d.exp.iter().any(|e| e.inst == r.inst && e.total > 0) && !op_skipped(a, r.op) {
                        v.push(Violation::new(
                            "C04",
                            "C04/event-visible-to-unscheduled-system",
                            format!("run {} of instance {} read payload {id} it was never scheduled for", r.run, r.inst),
                            r.pos,
                        ));
                    }
                }
            }
        }
    }
    (v, cov)
}

pub fn c05(cx: &Ctx) -> (Vec<Violation>, Cover) {
    let a = cx.a;
    let mut v = vec![];
    let mut cov = Cover::default();
    for p in a.pays.iter() {
        let c = &a.cmds[p.cmd];
        if op_skipped(a, c.op) {
            continue;
        }
        cov.relevant = true;
        cov.count("payloads", 1);
        let o = &a.ops[c.op];
        let deadline = if c.in_poll { o.poll_end } else { o.end };
        let Some(deadline) = deadline else { continue };
        let drops_by_deadline = p.drops.iter().filter(|d| **d < deadline).count();
        let kind = ["broadcast", "entity-event", "system-event"][p.kind as usize];
        if p.drops.len() > 1 {
            v.push(Violation::new("C05", format!("C05/double-drop/{kind}"), format!("payload {} dropped {} times", p.id, p.drops.len()), p.drops[1]));
        }
        if drops_by_deadline == 0 {
            v.push(Violation::new(
                "C05",
                format!("C05/not-released-by-tree-end/{kind}"),
                format!("payload {} of {:?} still alive when its reaction tree ended", p.id, c.act),
                deadline,
            ));
        }
        let d = cx.dels.iter().find(|d| d.key == Key::Pay(p.id));
        let Some(d) = d else { continue };
        let sched: u32 = d.exp.iter().map(|e| e.total).sum();
        match sched {
            0 => cov.count("payloads_no_listener", 1),
            1 => cov.count("payloads_1_reader", 1),
            _ => cov.count("payloads_2plus_readers", 1),
        }
        let postponed = d.exp.iter().any(|e| a.busy_at(e.inst, d.pre));
        let skipped = d.exp.iter().any(|e| e.total > 0 && a.sys_alive_at(d.post, e.inst) != Some(true));
        if postponed {
            cov.count("payloads_with_postponed_reader", 1);
        }
        if skipped {
            cov.count("payloads_with_vanished_reader", 1);
        }
        if sched >= 2 || postponed || skipped {
            cov.nontrivial = true;
        }
        if let Some(first_drop) = p.drops.first().copied() {
            // never while a scheduled reader has yet to run: a read after the drop
            if p.kind != 2 {
                if let Some((ri, pos)) = p.reads.iter().find(|(_, pos)| *pos > first_drop) {
                    v.push(Violation::new(
                        "C05",
                        format!("C05/read-after-release/{kind}"),
                        format!("payload {} was dropped at {first_drop} but run {} read it at {pos}", p.id, a.runs[*ri].run),
                        *pos,
                    ));
                }
            }
            // an event nobody listens to is dropped immediately
            if sched == 0 && !(first_drop > d.pre && first_drop < d.post) {
                v.push(Violation::new(
                    "C05",
                    format!("C05/unheard-event-not-dropped-immediately/{kind}"),
                    format!("payload {} has no scheduled reader but was dropped at {first_drop}, outside its command {}..{}", p.id, d.pre, d.post),
                    first_drop,
                ));
            }
            // released before a scheduled, living reader got to read it
            for e in d.exp.iter() {
                if e.certain == 0 {
                    continue;
                }
                let reads = p.reads.iter().filter(|(ri, _)| a.runs[*ri].inst == e.inst).count() as u32;
                let reached_alive = (a.sys_alive_at(d.post, e.inst) == Some(true) && !a.busy_at(e.inst, d.pre)) || a.alive_at_poll_end(c.op, e.inst);
                if reads < e.certain && reached_alive {
                    // did a run of that instance happen after the drop inside the tree without seeing anything?
                    let blind = a.runs.iter().any(|r| r.inst == e.inst && r.pos > first_drop && r.op == c.op && r.obs.count() == 0);
                    if blind {
                        v.push(Violation::new(
                            "C05",
                            format!("C05/released-before-scheduled-reader/{kind}"),
                            format!("payload {} was dropped at {first_drop}; scheduled reader {} ran afterwards and found nothing", p.id, e.inst),
                            first_drop,
                        ));
                    }
                }
            }
        }
    }
    // no event bookkeeping entity outlives the tree
    for o in a.ops.iter() {
        for ph in 0..2 {
            let Some(sp) = o.snaps[ph] else { continue };
            let Ev::Snapshot { snap, .. } = &a.tr[sp] else { continue };
            if snap.data_entities != 0 || snap.system_event_data != 0 {
                v.push(Violation::new(
                    "C05",
                    "C05/data-entity-outlives-tree",
                    format!("op {} phase {ph}: {} event data entities and {} system event data entities remain", o.op, snap.data_entities, snap.system_event_data),
                    sp,
                ));
            }
        }
        // census at the quiescent point
        if let Some(q) = o.quiescent {
            if let Ev::Quiescent { snap, facts, .. } = &a.tr[q] {
                let expect = facts.ents_alive.count_ones() as usize + facts.sys_alive.count_ones() as usize;
                if snap.world_entities != expect {
                    v.push(Violation::new(
                        "C05",
                        if snap.world_entities > expect { "C05/census/extra-entities" } else { "C05/census/missing-entities" },
                        format!("op {}: world has {} entities, harness accounts for {}", o.op, snap.world_entities, expect),
                        q,
                    ));
                }
            }
        }
    }
    (v, cov)
}
