//! C07 (reactor lifetime follows its mode) and C13 (private persistent system state).

use super::*;
use crate::analysis::*;
use crate::trace::*;
use crate::types::*;

/// Number of registrations of `inst` that certainly hold a handle at position `p` (a facts position).
fn holding_at(a: &Analysis, inst: Inst, p: usize) -> usize {
    a.regs
        .iter()
        .filter(|r| r.inst == inst && r.live_at(p))
        .filter(|r| match r.trig.entity() {
            Some(e) => a.ent_alive_at(p, e) == Some(true),
            None => true,
        })
        .count()
}

/// True if the run at `ri` was started by the replay of a postponed command.
pub fn is_replay(a: &Analysis, ri: usize) -> bool {
    let r = &a.runs[ri];
    let ent = a.insts[r.inst].ent;
    let mut p = r.pos;
    while p > 0 {
        p -= 1;
        match &a.tr[p] {
            Ev::Hook(HookEv::Enter { target, .. }) if *target == ent => {
                return p > 0 && matches!(&a.tr[p - 1], Ev::Hook(HookEv::Replay { target }) if *target == ent);
            }
            Ev::Hook(_) => continue,
            _ => return false,
        }
    }
    false
}

pub fn c07(cx: &Ctx) -> (Vec<Violation>, Cover) {
    let a = cx.a;
    let mut v = vec![];
    let mut cov = Cover::default();
    let facts_positions: Vec<usize> = (0..a.end_pos).filter(|p| a.facts_at(*p).is_some()).collect();
    for (inst, info) in a.insts.iter().enumerate() {
        if info.kind == SysKindTag::Once {
            continue;
        }
        let Some(published) = info.published_pos else { continue };
        let refcounted = a.is_refcounted(inst);
        cov.relevant = true;
        cov.count(if refcounted { "refcounted_reactors" } else { "persistent_systems" }, 1);
        let mode = format!("{:?}", info.mode);
        let mut reported = false;
        // quiescent points
        for o in a.ops.iter() {
            let Some(q) = o.quiescent else { continue };
            if published > q {
                continue;
            }
            let alive = a.sys_alive_at(q, inst) == Some(true);
            let explicit = info.explicit_despawn.map(|p| p < q).unwrap_or(false);
            let holding = holding_at(a, inst, q);
            let expect_alive = !explicit && (!refcounted || holding > 0);
            if alive != expect_alive {
                let what = if alive { "leak" } else { "premature-despawn" };
                v.push(Violation::new(
                    "C07",
                    format!("C07/{what}/{mode}"),
                    format!(
                        "instance {inst} ({mode}) is {} at the quiescent point of op {} but {} registrations hold it (explicitly despawned: {explicit})",
                        if alive { "alive" } else { "gone" },
                        o.op,
                        holding
                    ),
                    q,
                ));
                reported = true;
                break;
            }
            let drops = info.canary_drops.iter().filter(|p| **p < q).count();
            if alive && drops > 0 {
                v.push(Violation::new("C07", format!("C07/state-dropped-while-alive/{mode}"), format!("instance {inst} exists but its captured state was dropped"), q));
                reported = true;
                break;
            }
            // the zero-sized body keeps its canary in a `Local`, which only exists once the system has run
            let never_ran_zst = info.flavour == crate::program::Flavour::Zst && !a.runs.iter().any(|r| r.inst == inst && r.pos < q);
            if !alive && drops != 1 && !(never_ran_zst && drops == 0) {
                v.push(Violation::new(
                    "C07",
                    format!("C07/state-not-dropped/{mode}"),
                    format!("instance {inst} is gone but its captured state was dropped {drops} times"),
                    q,
                ));
                reported = true;
                break;
            }
        }
        if reported {
            continue;
        }
        // continuous: never gone while a registration holds it (and never, for persistent ones)
        let mut distinct_counts: Vec<usize> = vec![];
        let mut zero_mid_tree = false;
        let mut prev_alive = true;
        for p in facts_positions.iter().copied() {
            if p < published {
                continue;
            }
            let alive = a.sys_alive_at(p, inst) == Some(true);
            if refcounted {
                let h = holding_at(a, inst, p);
                if distinct_counts.last() != Some(&h) {
                    distinct_counts.push(h);
                }
                if h == 0 && !matches!(a.tr[p], Ev::Quiescent { .. }) {
                    zero_mid_tree = true;
                }
            }
            if prev_alive && !alive {
                let explicit = info.explicit_despawn.map(|e| e < p).unwrap_or(false);
                let h = holding_at(a, inst, p);
                if !explicit && (!refcounted || h > 0) {
                    v.push(Violation::new(
                        "C07",
                        format!("C07/premature-despawn-mid-tree/{mode}"),
                        format!("instance {inst} ({mode}) vanished at {p} while {h} registrations hold it"),
                        p,
                    ));
                    break;
                }
            }
            prev_alive = alive;
        }
        if refcounted {
            distinct_counts.dedup();
            let mut d = distinct_counts.clone();
            d.sort();
            d.dedup();
            if d.len() >= 3 || (d.len() >= 2 && zero_mid_tree) {
                cov.nontrivial = true;
                cov.count("refcount_multi_step_or_zero_mid_tree", 1);
            }
        }
        // an explicit collection despawns every ref-counted reactor that nothing holds any more
        if refcounted && !reported {
            for c in a.cmds.iter().filter(|c| matches!(c.act, RAct::Gc)) {
                let (Some(pre), Some(post)) = (c.pre, c.post) else { continue };
                if published > pre || a.sys_alive_at(pre, inst) != Some(true) {
                    continue;
                }
                // a despawn reaction that was scheduled but has not run yet owns a clone of the handle (even if the
                // registration itself was revoked meanwhile)
                let pending_despawn_reaction = a.regs.iter().any(|r| {
                    let (RTrig::Desp(e), Some(f)) = (r.trig, r.fired) else { return false };
                    if r.inst != inst || f >= pre {
                        return false;
                    }
                    // every fired registration schedules one reaction; all of them must have finished
                    let fired = a.regs.iter().filter(|r2| r2.inst == inst && r2.trig == r.trig && r2.fired == Some(f)).count();
                    let done = a.runs.iter().filter(|run| run.inst == inst && run.obs.desp == Some(e) && run.pos > f && run.busy_end < pre).count();
                    done < fired
                });
                if holding_at(a, inst, pre) == 0 && !pending_despawn_reaction && a.sys_alive_at(post, inst) == Some(true) {
                    cov.count("explicit_collections_checked", 1);
                    v.push(Violation::new(
                        "C07",
                        format!("C07/not-collected-by-explicit-gc/{mode}"),
                        format!("instance {inst} ({mode}) had no holder at {pre} but survived the explicit collection {pre}..{post}"),
                        post,
                    ));
                    break;
                }
            }
        }
        if info.canary_drops.len() > 1 {
            v.push(Violation::new("C07", "C07/state-dropped-twice", format!("captured state of instance {inst} dropped {} times", info.canary_drops.len()), info.canary_drops[1]));
        }
    }
    pending_despawn_reactions(a, &mut v, &mut cov);
    (v, cov)
}

/// "... or a despawn reaction for it is pending": from the moment the framework applies a despawn reaction addressed to
/// a reactor (hook `Apply{kind: Despawn}`) until that reaction has started (or, for a direct command, was refused), the
/// reactor must exist and keep its state unless the program despawned it explicitly. Observed where its absence shows:
/// the runner refusing a command for it with `EntityMissing`, and the drop of its canary.
fn pending_despawn_reactions(a: &Analysis, v: &mut Vec<Violation>, cov: &mut Cover) {
    use std::collections::HashMap;
    let by_ent: HashMap<u64, Inst> = a.insts.iter().enumerate().map(|(i, s)| (s.ent, i)).collect();
    let explicit_before = |inst: Inst, p: usize| a.cmds.iter().any(|c| matches!(c.act, RAct::DespawnSys { inst: i } if i == inst) && c.pre.map(|x| x < p).unwrap_or(false));
    // pending[inst] = sources of despawn reactions applied but not yet started
    let mut pending: HashMap<Inst, Vec<u64>> = HashMap::new();
    let mut reported: Vec<Inst> = vec![];
    for (p, ev) in a.tr.iter().enumerate() {
        match ev {
            Ev::Hook(HookEv::Apply { target, kind: HKind::Despawn(e) }) => {
                let Some(inst) = by_ent.get(target).copied() else { continue };
                if a.insts[inst].kind == SysKindTag::Once {
                    continue;
                }
                pending.entry(inst).or_default().push(*e);
                cov.count("despawn_reactions_tracked_while_pending", 1);
            }
            Ev::RunStart { inst, obs, .. } => {
                let Some(q) = pending.get_mut(inst) else { continue };
                if q.is_empty() {
                    continue;
                }
                // the run says which despawn it reacts to; a run that reads nothing consumes the oldest entry (what it
                // reads is C03's business)
                let blind = obs.desp.is_none() && obs.bc.iter().all(|x| x.is_none()) && obs.ee.iter().all(|x| x.is_none()) && obs.se.iter().all(|x| x.is_none());
                if let Some(k) = obs.desp.and_then(|e| q.iter().position(|x| *x == e)) {
                    q.remove(k);
                    cov.count("pending_despawn_reactions_started", 1);
                } else if blind && obs.ins.iter().all(|x| x.is_none()) && obs.mu.iter().all(|x| x.is_none()) && obs.rem.iter().all(|x| x.is_none()) {
                    q.remove(0);
                }
            }
            Ev::Hook(HookEv::Abort { target, reason }) => {
                let Some(inst) = by_ent.get(target).copied() else { continue };
                let Some(q) = pending.get_mut(&inst) else { continue };
                if q.is_empty() {
                    continue;
                }
                if matches!(reason, HAbort::EntityMissing) && !explicit_before(inst, p) && !reported.contains(&inst) {
                    reported.push(inst);
                    v.push(Violation::new(
                        "C07",
                        format!("C07/gone-while-despawn-reaction-pending/{:?}", a.insts[inst].mode),
                        format!("a command for instance {inst} was refused at {p} because the reactor no longer exists, while {} despawn reaction(s) for it were pending (sources {:?}) and nothing despawned it explicitly", q.len(), q),
                        p,
                    ));
                }
                // the refused command may have been one of them
                q.remove(0);
            }
            // a reaction that is discarded at the end of the tree no longer holds anything
            Ev::Hook(HookEv::Discard { target }) => {
                if let Some(q) = by_ent.get(target).and_then(|i| pending.get_mut(i)) {
                    if !q.is_empty() {
                        q.remove(0);
                    }
                }
            }
            // nothing is pending between trees
            Ev::Quiescent { .. } => pending.clear(),
            Ev::CanaryDrop { inst } => {
                let Some(q) = pending.get(inst) else { continue };
                if !q.is_empty() && !explicit_before(*inst, p) && !reported.contains(inst) && p < a.end_pos {
                    reported.push(*inst);
                    v.push(Violation::new(
                        "C07",
                        format!("C07/state-dropped-while-despawn-reaction-pending/{:?}", a.insts[*inst].mode),
                        format!("the captured state of instance {inst} was dropped at {p} while {} despawn reaction(s) for it were pending (sources {:?})", q.len(), q),
                        p,
                    ));
                }
            }
            _ => {}
        }
    }
}

pub fn c13(cx: &Ctx) -> (Vec<Violation>, Cover) {
    let a = cx.a;
    let mut v = vec![];
    let mut cov = Cover::default();
    let mut count: Vec<u32> = vec![0; a.insts.len()];
    let mut replays: Vec<u32> = vec![0; a.insts.len()];
    for (ri, r) in a.runs.iter().enumerate() {
        if r.inst >= count.len() {
            continue;
        }
        cov.relevant = true;
        count[r.inst] += 1;
        if a.runs[ri].replay {
            replays[r.inst] += 1;
        }
        let k = count[r.inst];
        if r.ordinal != k || r.local != k {
            let what = if r.ordinal != k && r.local != k {
                "both"
            } else if r.local != k {
                "local"
            } else {
                "captured"
            };
            v.push(Violation::new(
                "C13",
                format!("C13/state-mismatch/{what}/{:?}", a.insts[r.inst].flavour),
                format!("run #{k} of instance {}: captured counter {}, Local {}", r.inst, r.ordinal, r.local),
                r.pos,
            ));
        }
        if let Some(d) = a.insts[r.inst].canary_drops.iter().find(|d| **d < r.pos) {
            v.push(Violation::new(
                "C13",
                "C13/state-dropped-then-run",
                format!("instance {} ran at {} after its captured state was dropped at {d}", r.inst, r.pos),
                r.pos,
            ));
        }
    }
    // the state lives as long as the system does: a canary (captured by the closure, or kept in a `Local` by the
    // zero-sized body) that was dropped while the system entity still exists means the state was thrown away
    for (inst, info) in a.insts.iter().enumerate() {
        let Some(first_drop) = info.canary_drops.first().copied() else { continue };
        if info.kind == SysKindTag::Once {
            // the wrapper of a one-off reactor releases the user's system right after its only run
            continue;
        }
        for o in a.ops.iter() {
            let Some(q) = o.quiescent else { continue };
            if q > first_drop && a.sys_alive_at(q, inst) == Some(true) {
                v.push(Violation::new(
                    "C13",
                    format!("C13/state-dropped-while-alive/{:?}", info.flavour),
                    format!("the system state of instance {inst} was dropped at {first_drop} although the instance still exists at the quiescent point {q}"),
                    first_drop,
                ));
                break;
            }
        }
    }
    for (i, c) in count.iter().enumerate() {
        if *c >= 3 {
            cov.count("instances_with_3plus_runs", 1);
            if replays[i] >= 1 {
                cov.nontrivial = true;
                cov.count("instances_with_3plus_runs_and_replay", 1);
            }
        }
    }
    cov.count("runs", a.runs.len() as u64);
    (v, cov)
}
