//! Offline checkers, one per property, over (Program, Trace, Analysis).

use crate::analysis::Analysis;
use crate::dispatch::Delivery;

pub mod dispatch_mon; // C01, C06, C15 (ledger exactness)
pub mod lifetime; // C07, C13
pub mod order; // C09, C12
pub mod payload; // C03, C04, C05
pub mod polled; // C08
pub mod quiesce; // C02, C11, C18
pub mod values; // C14, C16

#[derive(Clone, Debug)]
pub struct Violation {
    pub prop: &'static str,
    /// Structural signature (no seeds, no ids) used to key known findings.
    pub sig: String,
    pub msg: String,
    pub pos: usize,
}

impl Violation {
    pub fn new(prop: &'static str, sig: impl Into<String>, msg: impl Into<String>, pos: usize) -> Self {
        Violation { prop, sig: sig.into(), msg: msg.into(), pos }
    }
}

/// Shared context: analysis + expected deliveries (computed once per execution).
pub struct Ctx<'a> {
    pub a: &'a Analysis<'a>,
    pub dels: Vec<Delivery>,
}

pub const ALL_PROPS: [&str; 16] =
    ["C01", "C02", "C03", "C04", "C05", "C06", "C07", "C08", "C09", "C11", "C12", "C13", "C14", "C15", "C16", "C18"];

/// Per-property coverage facts gathered by a monitor (non-trivial shape counters etc.).
#[derive(Clone, Debug, Default)]
pub struct Cover {
    /// The execution contained at least one event relevant to the property.
    pub relevant: bool,
    /// The execution met the property's "non-trivial shape" rule.
    pub nontrivial: bool,
    /// Named counters merged into the evidence histograms.
    pub counters: Vec<(&'static str, u64)>,
}

impl Cover {
    pub fn count(&mut self, name: &'static str, n: u64) {
        if n == 0 {
            return;
        }
        if let Some(c) = self.counters.iter_mut().find(|c| c.0 == name) {
            c.1 += n;
        } else {
            self.counters.push((name, n));
        }
    }
}

pub fn run_monitor(prop: &str, cx: &Ctx) -> (Vec<Violation>, Cover) {
    match prop {
        "C01" => dispatch_mon::c01(cx),
        "C02" => quiesce::c02(cx),
        "C03" => payload::c03(cx),
        "C04" => payload::c04(cx),
        "C05" => payload::c05(cx),
        "C06" => dispatch_mon::c06(cx),
        "C07" => lifetime::c07(cx),
        "C08" => polled::c08(cx),
        "C09" => order::c09(cx),
        "C11" => quiesce::c11(cx),
        "C12" => order::c12(cx),
        "C13" => lifetime::c13(cx),
        "C14" => values::c14(cx),
        "C15" => dispatch_mon::c15(cx),
        "C16" => values::c16(cx),
        "C18" => quiesce::c18(cx),
        _ => (vec![], Cover::default()),
    }
}
