//! C02 (every scheduled run happens exactly once, tree completes), C11 (quiescence between trees),
//! C18 (stale references are harmless).

use std::collections::BTreeMap;

use super::*;
use crate::analysis::*;
use crate::dispatch::*;
use crate::trace::*;

fn op_skipped(a: &Analysis, op: usize) -> bool {
    matches!(&a.panicked, Some((p, _)) if *p == op) || a.ops.get(op).map(|o| o.quiescent.is_none()).unwrap_or(true)
}

#[derive(Default, Debug, Clone)]
struct HookCounts {
    apply: u32,
    run_begin: u32,
    run_end: u32,
    abort_missing: u32,
    abort_other: u32,
    postponed: u32,
    replay: u32,
    discard: u32,
    enter: u32,
    exit: u32,
}

pub fn c02(cx: &Ctx) -> (Vec<Violation>, Cover) {
    let a = cx.a;
    let mut v = vec![];
    let mut cov = Cover::default();
    // hook conservation per (op, target entity)
    let mut hc: BTreeMap<(usize, u64), HookCounts> = BTreeMap::new();
    let mut cur_op = 0usize;
    let mut first_pos: BTreeMap<(usize, u64), usize> = BTreeMap::new();
    for (pos, ev) in a.tr.iter().enumerate().take(a.end_pos) {
        match ev {
            Ev::OpStart { op, .. } => cur_op = *op,
            Ev::Hook(h) => {
                let t = match h {
                    HookEv::Apply { target, .. }
                    | HookEv::Enter { target, .. }
                    | HookEv::Abort { target, .. }
                    | HookEv::Postponed { target }
                    | HookEv::RunBegin { target }
                    | HookEv::RunEnd { target, .. }
                    | HookEv::Replay { target }
                    | HookEv::Discard { target }
                    | HookEv::Exit { target } => *target,
                };
                first_pos.entry((cur_op, t)).or_insert(pos);
                let c = hc.entry((cur_op, t)).or_default();
                match h {
                    HookEv::Apply { .. } => c.apply += 1,
                    HookEv::Enter { .. } => c.enter += 1,
                    HookEv::Abort { reason: HAbort::EntityMissing, .. } => c.abort_missing += 1,
                    HookEv::Abort { .. } => c.abort_other += 1,
                    HookEv::Postponed { .. } => c.postponed += 1,
                    HookEv::RunBegin { .. } => c.run_begin += 1,
                    HookEv::RunEnd { .. } => c.run_end += 1,
                    HookEv::Replay { .. } => c.replay += 1,
                    HookEv::Discard { .. } => c.discard += 1,
                    HookEv::Exit { .. } => c.exit += 1,
                }
            }
            _ => {}
        }
    }
    let mut any_postponed = false;
    let mut any_abort = false;
    for ((op, target), c) in hc.iter() {
        if op_skipped(a, *op) {
            continue;
        }
        cov.relevant = true;
        let pos = first_pos[&(*op, *target)];
        let inst = a.inst_of_ent.get(target).copied();
        cov.count("scheduled_commands", c.apply as u64);
        cov.count("postponed_commands", c.postponed as u64);
        cov.count("aborted_commands", (c.abort_missing + c.abort_other) as u64);
        any_postponed |= c.postponed > 0;
        any_abort |= c.abort_missing + c.abort_other > 0;
        // every command that reached the runner is accounted for: ran, or target gone, or postponed and replayed
        if c.enter != c.apply + c.replay {
            v.push(Violation::new("C02", "C02/hooks/enter-mismatch", format!("op {op} target {target}: {:?}", c), pos));
        }
        if c.enter != c.run_begin + c.abort_missing + c.abort_other + c.postponed {
            v.push(Violation::new("C02", "C02/hooks/command-lost-in-runner", format!("op {op} target {target}: {:?}", c), pos));
        }
        if c.postponed != c.replay + c.discard {
            v.push(Violation::new(
                "C02",
                "C02/postponed-never-replayed",
                format!("op {op} instance {:?}: {} commands postponed, {} replayed, {} discarded", inst, c.postponed, c.replay, c.discard),
                pos,
            ));
        }
        if c.run_begin != c.run_end || c.enter != c.exit {
            v.push(Violation::new("C02", "C02/hooks/unbalanced", format!("op {op} target {target}: {:?}", c), pos));
        }
        if c.abort_other > 0 || c.discard > 0 {
            // the target exists but its system was not available: the command was dropped although the target lives
            let alive = inst.map(|i| a.alive_at_op_end(*op, i) || a.alive_at_poll_end(*op, i)).unwrap_or(false);
            if alive {
                v.push(Violation::new(
                    "C02",
                    "C02/command-dropped-for-living-target",
                    format!("op {op} instance {:?}: {} commands discarded/{} aborted without the target being gone", inst, c.discard, c.abort_other),
                    pos,
                ));
            }
        }
        // body-level ground truth: the system body ran as often as the runner ran it
        if let Some(i) = inst {
            let bodies = a.runs.iter().filter(|r| r.inst == i && r.op == *op).count() as u32;
            let once = a.insts[i].kind == SysKindTag::Once;
            if (once && bodies > c.run_begin) || (!once && bodies != c.run_begin) {
                v.push(Violation::new(
                    "C02",
                    "C02/body-runs-differ-from-runner",
                    format!("op {op} instance {i}: runner ran it {}x, body executed {bodies}x", c.run_begin),
                    pos,
                ));
            }
        }
    }
    if any_postponed || any_abort || a.cmds.iter().any(|c| c.depth >= 3) {
        cov.nontrivial = true;
    }
    // direct commands (Run / SendSe): exactly once if the target exists when reached
    for d in cx.dels.iter() {
        if !matches!(d.kind, DKind::Run | DKind::SystemEvent) {
            continue;
        }
        let c = &a.cmds[d.cmd];
        if op_skipped(a, c.op) {
            continue;
        }
        cov.relevant = true;
        for e in d.exp.iter() {
            let busy = a.busy_at(e.inst, d.pre);
            if busy {
                cov.count("direct_commands_to_busy_target", 1);
            }
            let once = a.insts[e.inst].kind == SysKindTag::Once;
            match d.key {
                Key::Pay(p) => {
                    let o = observed_payload(a, p).get(&e.inst).copied().unwrap_or(0);
                    let must = (a.sys_alive_at(d.post, e.inst) == Some(true) && !busy) || a.alive_at_poll_end(c.op, e.inst);
                    if o > 1 {
                        v.push(Violation::new("C02", "C02/system-event/ran-twice", format!("system event {p} ran instance {} {o} times", e.inst), d.pre));
                    }
                    if o == 0 && must && !once {
                        v.push(Violation::new(
                            "C02",
                            format!("C02/system-event/never-ran/{}", if busy { "busy" } else { "idle" }),
                            format!("system event {p} for living instance {} never ran it", e.inst),
                            d.pre,
                        ));
                    }
                }
                _ => {
                    if !busy && a.sys_alive_at(d.post, e.inst) == Some(true) && !once {
                        let n = a.runs_in(d.pre, d.post).iter().filter(|r| r.inst == e.inst && r.parent == Some(d.cmd) && r.pos > d.pre && r.pos < d.post).count();
                        if n == 0 {
                            v.push(Violation::new("C02", "C02/run-command/never-ran/idle", format!("{:?} did not run idle living instance {}", c.act, e.inst), d.pre));
                        }
                    }
                }
            }
        }
        if d.target_dead {
            cov.count("direct_commands_to_dead_target", 1);
        }
    }
    // a run for a target that was gone
    for r in a.runs.iter() {
        if let Some(dead_since) = last_facts_before(a, r.pos) {
            if a.sys_alive_at(dead_since, r.inst) == Some(false) && a.insts[r.inst].published_pos.map(|p| p < dead_since).unwrap_or(false) {
                v.push(Violation::new("C02", "C02/ran-dead-target", format!("instance {} ran at {} although it was gone at {dead_since}", r.inst, r.pos), r.pos));
            }
        }
    }
    // the tree runs to completion: nothing left waiting when the outermost flush returns
    for o in a.ops.iter() {
        if op_skipped(a, o.op) {
            continue;
        }
        if let Some(sp) = o.snaps[0] {
            if let Ev::Snapshot { snap, .. } = &a.tr[sp] {
                if snap.buffered_len != 0 {
                    v.push(Violation::new("C02", "C02/commands-left-waiting", format!("op {}: {} commands still buffered after the flush returned", o.op, snap.buffered_len), sp));
                }
            }
        }
    }
    for c in a.cmds.iter() {
        if op_skipped(a, c.op) || matches!(c.act, RAct::Noop) {
            continue;
        }
        let end = a.ops[c.op].poll_end.unwrap_or(a.end_pos);
        if c.post.map(|p| p > end).unwrap_or(true) {
            v.push(Violation::new("C02", "C02/command-not-completed-by-tree-end", format!("command {} {:?} was not completed when its tree ended", c.cmd, c.act), c.issued_pos));
        }
    }
    (v, cov)
}

fn last_facts_before(a: &Analysis, pos: usize) -> Option<usize> {
    (0..pos).rev().take(64).find(|p| a.facts_at(*p).is_some())
}

pub fn c11(cx: &Ctx) -> (Vec<Violation>, Cover) {
    let a = cx.a;
    let mut v = vec![];
    let mut cov = Cover::default();
    for o in a.ops.iter() {
        if op_skipped(a, o.op) {
            continue;
        }
        for ph in 0..2 {
            let Some(sp) = o.snaps[ph] else { continue };
            let Ev::Snapshot { snap, .. } = &a.tr[sp] else { continue };
            cov.relevant = true;
            cov.count("snapshots", 1);
            let residue = snap.residue();
            if !residue.is_empty() {
                let first = residue[0].split('=').next().unwrap_or("").to_string();
                v.push(Violation::new(
                    "C11",
                    format!("C11/residue/{first}"),
                    format!("op {} ({}): framework not quiescent: {}", o.op, if ph == 0 { "after the op's flush" } else { "after the poll" }, residue.join(", ")),
                    sp,
                ));
            }
        }
        // did the tree contain an abort, postponement or self-despawn?
        let (s, e) = (o.start, o.poll_end.unwrap_or(a.end_pos));
        let mut faults = 0;
        for ev in a.tr[s..e].iter() {
            if matches!(ev, Ev::Hook(HookEv::Abort { .. }) | Ev::Hook(HookEv::Postponed { .. }) | Ev::Hook(HookEv::RunEnd { reinserted: false, .. })) {
                faults += 1;
            }
        }
        if faults > 0 {
            cov.nontrivial = true;
            cov.count("trees_with_abort_postpone_or_self_despawn", 1);
        }
    }
    (v, cov)
}

pub fn c18(cx: &Ctx) -> (Vec<Violation>, Cover) {
    let a = cx.a;
    let mut v = vec![];
    let mut cov = Cover::default();
    if let Some((op, msg)) = &a.panicked {
        let short: String = msg.chars().take(60).collect();
        // signature: the panic message without numbers
        let sig: String = short.chars().map(|c| if c.is_ascii_digit() { '#' } else { c }).collect();
        v.push(Violation::new("C18", format!("C18/panic/{sig}"), format!("panic in op {op}: {msg}"), a.end_pos));
    }
    // `EntityLocal` panics inside a reaction that was already scheduled for an entity which was despawned before the
    // reaction ran (the harness body catches the panic and records "no local data"; the classification is C16's)
    for viol in super::values::c16(cx).0 {
        if viol.sig == "C16/entity-local-unavailable/entity-despawned-while-reaction-pending" {
            v.push(Violation::new("C18", "C18/entity-local-panics/entity-despawned-while-reaction-pending", viol.msg, viol.pos));
        }
    }
    // stale operations
    for d in cx.dels.iter() {
        if d.target_dead {
            cov.relevant = true;
            cov.nontrivial = true;
            cov.count("operations_on_dead_target", 1);
            cov.count(
                match d.kind {
                    DKind::Run => "stale_run",
                    DKind::SystemEvent => "stale_system_event",
                    DKind::EntityEvent => "stale_entity_event",
                    DKind::Insertion => "stale_insert",
                    DKind::Mutation => "stale_mutation",
                    _ => "stale_other",
                },
                1,
            );
        }
    }
    for c in a.cmds.iter() {
        let Some(pre) = c.pre else { continue };
        let stale = match &c.act {
            RAct::Register { bundle, .. } | RAct::With { bundle, .. } | RAct::WrAdd { bundle, .. } => {
                bundle.iter().any(|t| t.entity().map(|e| a.ent_alive_at(pre, e) == Some(false)).unwrap_or(false))
            }
            RAct::EwAdd { ent, .. } => a.ent_alive_at(pre, *ent) == Some(false),
            RAct::EwRemove { ents, .. } => ents.iter().any(|e| a.ent_alive_at(pre, *e) == Some(false)),
            RAct::Revoke { token } => a.tokens.get(*token).map(|(i, _)| a.sys_alive_at(pre, *i) == Some(false)).unwrap_or(false),
            RAct::With { inst, .. } => a.sys_alive_at(pre, *inst) == Some(false),
            _ => false,
        };
        if stale {
            cov.relevant = true;
            cov.nontrivial = true;
            cov.count("registrations_or_revocations_naming_dead", 1);
        }
    }
    for ev in a.tr[..a.end_pos].iter() {
        if matches!(ev, Ev::Hook(HookEv::Abort { reason: HAbort::EntityMissing, .. })) {
            cov.relevant = true;
            cov.nontrivial = true;
            cov.count("reactions_for_vanished_system", 1);
        }
    }
    // nothing runs on behalf of the dead
    for d in cx.dels.iter() {
        if !d.target_dead || op_skipped(a, a.cmds[d.cmd].op) {
            continue;
        }
        match d.key {
            Key::Pay(p) => {
                let obs = observed_payload(a, p);
                let extra: Vec<_> = obs.iter().filter(|(i, _)| !d.exp.iter().any(|e| e.inst == **i && e.total > 0)).collect();
                if !extra.is_empty() {
                    v.push(Violation::new(
                        "C18",
                        format!("C18/ran-for-dead-target/{:?}", d.kind),
                        format!("{:?} named a despawned target, yet instances {:?} ran for it", a.cmds[d.cmd].act, extra),
                        d.pre,
                    ));
                }
                // payload released
                if let Some(pi) = a.pay_idx.get(&p) {
                    let o = &a.ops[a.cmds[d.cmd].op];
                    let deadline = o.poll_end.unwrap_or(a.end_pos);
                    if !a.pays[*pi].drops.iter().any(|x| *x < deadline) {
                        v.push(Violation::new("C18", format!("C18/payload-not-released/{:?}", d.kind), format!("{:?} named a despawned target; its payload was never dropped", a.cmds[d.cmd].act), d.pre));
                    }
                }
            }
            Key::Ins(..) => {
                // an insertion on a dead entity must not trigger anything (mutations: tolerance 7)
                let n = a.runs_in(d.pre, d.post).iter().filter(|r| r.parent == Some(d.cmd) && keys_of_obs(&r.obs).contains(&d.key)).count();
                if n > 0 {
                    v.push(Violation::new(
                        "C18",
                        "C18/ran-for-dead-target/Insertion",
                        format!("{:?} named a despawned entity, yet {n} insertion reactions ran", a.cmds[d.cmd].act),
                        d.pre,
                    ));
                }
            }
            _ => {}
        }
    }
    // a despawned system never runs
    for r in a.runs.iter() {
        if let Some(f) = last_facts_before(a, r.pos) {
            if a.sys_alive_at(f, r.inst) == Some(false) && a.insts[r.inst].published_pos.map(|p| p < f).unwrap_or(false) {
                v.push(Violation::new("C18", "C18/despawned-system-ran", format!("instance {} ran at {} although it was gone at {f}", r.inst, r.pos), r.pos));
            }
        }
    }
    // ... and leaves all other registrations working: dispatch exactness after the first stale operation
    if cov.relevant {
        let first_stale = cx.dels.iter().filter(|d| d.target_dead).map(|d| d.pre).min();
        if let Some(fs) = first_stale {
            for d in super::dispatch_mon::discrepancies(cx).iter().filter(|d| d.pos > fs) {
                v.push(Violation::new(
                    "C18",
                    format!("C18/other-registrations-broken/{:?}/{}", d.kind, if d.extra { "extra" } else { "missing" }),
                    format!("after a stale operation at {fs}: instance {} ran {}x, expected {}..{}: {}", d.inst, d.observed, d.lo, d.hi, d.detail),
                    d.pos,
                ));
            }
        }
    }
    // the framework is clean afterwards
    if cov.relevant {
        for o in a.ops.iter() {
            if op_skipped(a, o.op) {
                continue;
            }
            if let Some(sp) = o.snaps[1] {
                if let Ev::Snapshot { snap, .. } = &a.tr[sp] {
                    let residue = snap.residue();
                    if !residue.is_empty() {
                        v.push(Violation::new("C18", "C18/residue-after-stale-operation", format!("op {}: {}", o.op, residue.join(", ")), sp));
                    }
                }
            }
        }
    }
    (v, cov)
}
