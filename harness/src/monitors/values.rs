//! C14 (reactive accessors trigger exactly as documented) and C16 (world reactors / entity-local data).

use std::collections::BTreeMap;

use super::dispatch_mon::discrepancies;
use super::*;
use crate::analysis::*;
use crate::dispatch::*;
use crate::trace::*;
use crate::types::*;

fn op_skipped(a: &Analysis, op: usize) -> bool {
    matches!(&a.panicked, Some((p, _)) if *p == op) || a.ops.get(op).map(|o| o.quiescent.is_none()).unwrap_or(true)
}

/// Direct-child runs of bracket `ci` carrying `key`, and whether any run inside the bracket issued commands.
fn inline_runs(a: &Analysis, ci: usize, pre: usize, post: usize, key: Key) -> (BTreeMap<Inst, u32>, bool) {
    let mut m = BTreeMap::new();
    let mut busy_bodies = false;
    for r in a.runs_in(pre, post).iter() {
        if r.pos > pre && r.pos < post {
            if !r.cmds.is_empty() {
                busy_bodies = true;
            }
            if r.parent == Some(ci) && !r.replay && (keys_of_obs(&r.obs).contains(&key) || blind_inline_run(a, r, ci, key)) {
                *m.entry(r.inst).or_insert(0) += 1;
            }
        }
    }
    (m, busy_bodies)
}

pub fn c14(cx: &Ctx) -> (Vec<Violation>, Cover) {
    let a = cx.a;
    let mut v = vec![];
    let mut cov = Cover::default();
    let mut triggering_per_run: BTreeMap<RunId, u32> = BTreeMap::new();
    for (ci, c) in a.cmds.iter().enumerate() {
        if op_skipped(a, c.op) {
            continue;
        }
        let (Some(pre), Some(post)) = (c.pre, c.post) else { continue };
        let del = cx.dels.iter().find(|d| d.cmd == ci);
        match &c.act {
            RAct::Access { ent, comp, how, hit, old, new, after, ret_some, triggers } => {
                cov.relevant = true;
                cov.count("component_accessor_calls", 1);
                cov.count(
                    match how {
                        MutHow::GetMut => "get_mut",
                        MutHow::SetIfNeq => "set_if_neq",
                        MutHow::GetNoreact => "get_noreact",
                        MutHow::Read => "read",
                    },
                    1,
                );
                if !hit {
                    cov.count("accessor_on_missing_component_or_entity", 1);
                }
                let how_s = format!("{:?}", how);
                // stored value and return value
                let want_after = match (how, hit) {
                    (_, false) => None,
                    (MutHow::Read, true) => *old,
                    (_, true) => Some(*new),
                };
                if *after != want_after {
                    v.push(Violation::new("C14", format!("C14/stored-value/{how_s}"), format!("{:?}: value after the call is {:?}, expected {:?}", c.act, after, want_after), c.issued_pos));
                }
                let want_ret = *how == MutHow::SetIfNeq && *hit && *old != Some(*new);
                if *ret_some != want_ret {
                    v.push(Violation::new("C14", format!("C14/return-value/{how_s}"), format!("{:?}: returned Some={ret_some}, expected {want_ret}", c.act), c.issued_pos));
                }
                let key = Key::Mut(*comp, *ent);
                let (runs, busy_bodies) = inline_runs(a, ci, pre, post, key);
                let listeners_exist = a.live_regs_at(pre).any(|r| r.trig == RTrig::Mut(*comp) || r.trig == RTrig::EMut(*ent, *comp));
                if *triggers {
                    *triggering_per_run.entry(c.run).or_insert(0) += 1;
                } else {
                    if listeners_exist {
                        cov.nontrivial = true;
                        cov.count("non_triggering_call_with_listener", 1);
                    }
                    let n: u32 = runs.values().sum();
                    if n > 0 {
                        v.push(Violation::new(
                            "C14",
                            format!("C14/unexpected-trigger/{how_s}/{}", if *hit { "present" } else { "absent" }),
                            format!("{:?} must not trigger, yet {n} mutation reactions ran inside it", c.act),
                            pre,
                        ));
                    }
                }
                if let (true, Some(d)) = (*triggers, del) {
                    check_exact(a, d, &runs, busy_bodies, &how_s, &mut v, &mut cov);
                }
            }
            RAct::ResAccess { ty: _, how, old, new, after, ret_some, triggers } => {
                cov.relevant = true;
                cov.count("resource_accessor_calls", 1);
                let how_s = format!("res-{:?}", how);
                let want_after = if *how == MutHow::Read { *old } else { *new };
                if *after != want_after {
                    v.push(Violation::new("C14", format!("C14/stored-value/{how_s}"), format!("{:?}: value after the call is {after}, expected {want_after}", c.act), c.issued_pos));
                }
                let want_ret = *how == MutHow::SetIfNeq && old != new;
                if *ret_some != want_ret {
                    v.push(Violation::new("C14", format!("C14/return-value/{how_s}"), format!("{:?}: returned Some={ret_some}, expected {want_ret}", c.act), c.issued_pos));
                }
                let (runs, busy_bodies) = inline_runs(a, ci, pre, post, Key::Empty);
                if *triggers {
                    *triggering_per_run.entry(c.run).or_insert(0) += 1;
                    if let Some(d) = del {
                        check_exact(a, d, &runs, busy_bodies, &how_s, &mut v, &mut cov);
                    }
                } else {
                    if let RAct::ResAccess { ty, .. } = &c.act {
                        if a.live_regs_at(pre).any(|r| r.trig == RTrig::Res(*ty)) {
                            cov.nontrivial = true;
                            cov.count("non_triggering_call_with_listener", 1);
                        }
                    }
                    let n: u32 = runs.values().sum();
                    if n > 0 {
                        v.push(Violation::new("C14", format!("C14/unexpected-trigger/{how_s}"), format!("{:?} must not trigger, yet {n} runs happened inside it", c.act), pre));
                    }
                }
            }
            RAct::TriggerMutation { .. } | RAct::ResTrigger { .. } => {
                cov.relevant = true;
                cov.count("explicit_trigger_calls", 1);
                *triggering_per_run.entry(c.run).or_insert(0) += 1;
                if let Some(d) = del {
                    let (runs, busy_bodies) = inline_runs(a, ci, pre, post, d.key);
                    check_exact(a, d, &runs, busy_bodies, "explicit", &mut v, &mut cov);
                }
            }
            RAct::Insert { ent, comp, val, queued } => {
                cov.relevant = true;
                cov.count("insert_calls", 1);
                let alive = a.ent_alive_at(pre, *ent) == Some(true);
                if !alive {
                    cov.count("insert_on_dead_entity", 1);
                    if a.live_regs_at(pre).any(|r| r.trig == RTrig::Ins(*comp)) {
                        cov.nontrivial = true;
                    }
                }
                let key = Key::Ins(*comp, *ent);
                let (runs, busy_bodies) = inline_runs(a, ci, pre, post, key);
                let inserted = *queued && alive;
                if !inserted {
                    let n: u32 = runs.values().sum();
                    if n > 0 {
                        v.push(Violation::new(
                            "C14",
                            "C14/insert/reaction-without-insertion",
                            format!("{:?}: the entity did not exist when the command was applied, yet {n} insertion reactions ran", c.act),
                            pre,
                        ));
                    }
                } else {
                    // (an entity that was waiting for its automatic despawn goes at the first collection, which the
                    // reaction's own runner performs: the stored value can only be read back if it survived)
                    let died_inside = a.deaths.iter().any(|d| d.ent == *ent && d.pos > pre && d.pos < post);
                    if !busy_bodies && !died_inside && a.comp_at(post, *ent, *comp) != Some(Some(*val)) {
                        v.push(Violation::new(
                            "C14",
                            "C14/insert/component-missing",
                            format!("{:?}: after the command the component is {:?}", c.act, a.comp_at(post, *ent, *comp)),
                            post,
                        ));
                    }
                    if let Some(d) = del {
                        check_exact(a, d, &runs, busy_bodies, "insert", &mut v, &mut cov);
                    }
                }
            }
            _ => {}
        }
    }
    if triggering_per_run.values().any(|n| *n >= 2) {
        cov.nontrivial = true;
        cov.count("bodies_with_2plus_triggering_calls", 1);
    }
    (v, cov)
}

/// Exactly one trigger per call: every idle, surviving listener ran exactly as often as it is registered.
fn check_exact(a: &Analysis, d: &Delivery, runs: &BTreeMap<Inst, u32>, busy_bodies: bool, how: &str, v: &mut Vec<Violation>, cov: &mut Cover) {
    for e in d.exp.iter() {
        if a.busy_at(e.inst, d.pre) || a.sys_alive_at(d.post, e.inst) != Some(true) {
            continue;
        }
        if a.insts[e.inst].kind == SysKindTag::Once {
            continue;
        }
        cov.count("listener_checks", 1);
        let o = runs.get(&e.inst).copied().unwrap_or(0);
        if o < e.certain {
            v.push(Violation::new(
                "C14",
                format!("C14/missing-trigger/{how}"),
                format!("{:?}: listener {} ran {o}x inside the call's command, expected {}", a.cmds[d.cmd].act, e.inst, e.certain),
                d.pre,
            ));
        } else if o > e.total && !busy_bodies {
            v.push(Violation::new(
                "C14",
                format!("C14/double-trigger/{how}"),
                format!("{:?}: listener {} ran {o}x inside the call's command, expected {}", a.cmds[d.cmd].act, e.inst, e.total),
                d.pre,
            ));
        }
    }
    for (inst, o) in runs.iter() {
        if !d.exp.iter().any(|e| e.inst == *inst && e.total > 0) && !busy_bodies {
            v.push(Violation::new(
                "C14",
                format!("C14/trigger-reached-unregistered/{how}"),
                format!("{:?}: instance {inst} ran {o}x without a matching registration", a.cmds[d.cmd].act),
                d.pre,
            ));
        }
    }
}

pub fn c16(cx: &Ctx) -> (Vec<Violation>, Cover) {
    let a = cx.a;
    let mut v = vec![];
    let mut cov = Cover::default();
    let wr_ew: Vec<Inst> = a
        .insts
        .iter()
        .enumerate()
        .filter(|(_, i)| matches!(i.kind, SysKindTag::WorldReactor(_) | SysKindTag::EntityWorldReactor(_)))
        .map(|(i, _)| i)
        .collect();
    // the single system is never despawned or duplicated
    for i in wr_ew.iter().copied() {
        for p in a.insts[i].created_pos..a.end_pos {
            if let Some(f) = a.facts_at(p) {
                if !f.sys_alive(i) {
                    v.push(Violation::new("C16", "C16/world-reactor-despawned", format!("world reactor instance {i} does not exist at {p}"), p));
                    break;
                }
            }
        }
        if let Some(d) = a.insts[i].canary_drops.first() {
            v.push(Violation::new("C16", "C16/world-reactor-state-dropped", format!("world reactor instance {i} lost its system state at {d}"), *d));
        }
    }
    // adds / removes take effect: ledger exactness restricted to world reactor instances
    let any_wr_cmd = a.cmds.iter().any(|c| matches!(c.act, RAct::WrAdd { .. } | RAct::WrRemove { .. } | RAct::EwAdd { .. } | RAct::EwRemove { .. }));
    if any_wr_cmd {
        cov.relevant = true;
    }
    for d in discrepancies(cx).iter().filter(|d| wr_ew.contains(&d.inst)) {
        v.push(Violation::new(
            "C16",
            format!("C16/dispatch/{:?}/{}/{}", d.kind, if d.extra { "extra" } else { "missing" }, d.scope),
            format!("world reactor instance {} ran {}x, expected {}..{}: {}", d.inst, d.observed, d.lo, d.hi, d.detail),
            d.pos,
        ));
    }
    // removal / despawn triggers of world reactors are detected by polling: same exactness
    for d in super::polled::polled_discrepancies(cx) {
        if wr_ew.contains(&d.inst) {
            v.push(Violation::new("C16", format!("C16/polled-trigger/{}/{}", d.what, d.class), d.msg.clone(), d.pos));
        }
    }
    // entity-local data model
    #[derive(Debug)]
    enum E {
        Add(usize),
        Remove(usize),
        Run(usize),
        Death(usize),
    }
    let mut evs: Vec<(usize, E)> = vec![];
    for (ci, c) in a.cmds.iter().enumerate() {
        let Some(post) = c.post else { continue };
        match c.act {
            RAct::EwAdd { .. } => evs.push((post, E::Add(ci))),
            RAct::EwRemove { .. } => evs.push((post, E::Remove(ci))),
            _ => {}
        }
    }
    for (ri, r) in a.runs.iter().enumerate() {
        if matches!(a.insts[r.inst].kind, SysKindTag::EntityWorldReactor(_)) {
            evs.push((r.pos, E::Run(ri)));
        }
    }
    for (di, d) in a.deaths.iter().enumerate() {
        evs.push((d.pos, E::Death(di)));
    }
    evs.sort_by_key(|e| e.0);
    let mut model: BTreeMap<(Inst, u64), u32> = BTreeMap::new();
    let mut ents_per_op: BTreeMap<(usize, Inst), std::collections::BTreeSet<u64>> = BTreeMap::new();
    for (pos, e) in evs {
        match e {
            E::Add(ci) => {
                let c = &a.cmds[ci];
                let RAct::EwAdd { inst, ent, data, .. } = c.act else { continue };
                cov.count("ew_adds", 1);
                if a.ent_alive_at(c.pre.unwrap_or(pos), ent) == Some(true) {
                    if model.contains_key(&(inst, ent)) {
                        cov.count("ew_re_adds", 1);
                    }
                    model.insert((inst, ent), data);
                } else {
                    cov.count("ew_adds_on_dead_entity", 1);
                }
            }
            E::Remove(ci) => {
                let c = &a.cmds[ci];
                let RAct::EwRemove { inst, ref ents, ref bundle, .. } = c.act else { continue };
                cov.count("ew_removes", 1);
                if ents.len() >= 2 {
                    cov.count("ew_removes_naming_two_entities", 1);
                }
                for ent in ents.iter().copied() {
                    let remaining = a.regs.iter().filter(|r| r.inst == inst && r.trig.entity() == Some(ent) && r.live_at(pos + 1)).count();
                    if remaining == 0 {
                        model.remove(&(inst, ent));
                    } else if bundle.len() == 1 {
                        cov.nontrivial = true;
                        cov.count("ew_partial_removals_keeping_data", 1);
                    }
                }
            }
            E::Death(di) => {
                let ent = a.deaths[di].ent;
                model.retain(|k, _| k.1 != ent);
            }
            E::Run(ri) => {
                let r = &a.runs[ri];
                if op_skipped(a, r.op) {
                    continue;
                }
                cov.relevant = true;
                cov.count("ew_runs", 1);
                let set = ents_per_op.entry((r.op, r.inst)).or_default();
                let src: Option<u64> = r.obs.seen().iter().find_map(|s| match s {
                    Seen::Ee(_, e, _) | Seen::Ins(_, e) | Seen::Mut(_, e) | Seen::Rem(_, e) => Some(*e),
                    _ => None,
                });
                if let Some(s) = src {
                    set.insert(s);
                    if set.len() >= 2 {
                        cov.nontrivial = true;
                    }
                }
                match (r.obs.ew_local, src) {
                    (None, _) => {
                        // Classify: were the entity's triggers removed, or the entity despawned, between the cause
                        // of this reaction and the run (i.e. while the reaction was already scheduled)?
                        // Candidate causes: the delivery that carried the payload (unambiguous), otherwise every earlier
                        // delivery / removal with this run's key - a postponed or polled reaction carries no identity,
                        // so the run may belong to any of them.
                        let mut candidates: Vec<usize> = vec![];
                        if let Some(p) = r.obs.payload_ids().first().and_then(|id| cx.dels.iter().find(|d| d.key == Key::Pay(*id)).map(|d| d.pre)) {
                            candidates.push(p);
                        } else {
                            let keys = keys_of_obs(&r.obs);
                            candidates.extend(cx.dels.iter().filter(|d| keys.contains(&d.key) && d.pre < r.pos && a.cmds[d.cmd].op == r.op && d.exp.iter().any(|e| e.inst == r.inst && e.total > 0)).map(|d| d.pre));
                            for s in r.obs.seen().iter() {
                                if let Seen::Rem(c, e) = s {
                                    // (no restriction to the op: a removal is reported by the first poll after its component became tracked)
                                    candidates.extend(a.removals.iter().filter(|x| x.ent == *e && x.comp == *c && x.pos < r.pos && !x.by_despawn).map(|x| x.pos));
                                }
                            }
                        }
                        let cause_pos = candidates.iter().copied().max();
                        let class = match (cause_pos, src) {
                            (Some(_), Some(e)) => {
                                let removed = candidates.iter().any(|cp| {
                                    a.cmds.iter().any(|c| {
                                        matches!(&c.act, RAct::EwRemove { inst, ents, .. } if *inst == r.inst && ents.contains(&e))
                                            && c.post.map(|p| p > *cp && p < r.pos).unwrap_or(false)
                                    })
                                });
                                let died = candidates.iter().any(|cp| a.deaths.iter().any(|d| d.ent == e && d.pos > *cp && d.pos < r.pos));
                                if removed {
                                    "triggers-removed-while-reaction-pending"
                                } else if died {
                                    "entity-despawned-while-reaction-pending"
                                } else {
                                    "other"
                                }
                            }
                            _ => "no-source",
                        };
                        v.push(Violation::new(
                            "C16",
                            format!("C16/entity-local-unavailable/{class}"),
                            format!("run {} of entity world reactor {} (source {:?}) could not read EntityLocal ({class}; cause at {:?})", r.run, r.inst, src, cause_pos),
                            r.pos,
                        ));
                    }
                    (Some((e, d)), src) => {
                        if let Some(s) = src {
                            if s != e {
                                v.push(Violation::new("C16", "C16/entity-local-of-other-entity", format!("run {} caused by entity {s} got the local data of entity {e}", r.run), r.pos));
                                continue;
                            }
                        }
                        match model.get_mut(&(r.inst, e)) {
                            Some(m) => {
                                if *m != d {
                                    v.push(Violation::new(
                                        "C16",
                                        "C16/entity-local-wrong-value",
                                        format!("run {} for entity {e}: EntityLocal holds {d}, expected {} (as attached and modified by earlier runs)", r.run, *m),
                                        r.pos,
                                    ));
                                    *m = d;
                                }
                                *m += 1;
                            }
                            None => {
                                v.push(Violation::new("C16", "C16/entity-local-after-removal", format!("run {} for entity {e} read local data {d} although none should be attached", r.run), r.pos));
                            }
                        }
                    }
                }
            }
        }
    }
    // presence of the data component at quiescent points
    for o in a.ops.iter() {
        let Some(q) = o.quiescent else { continue };
        let Ev::Quiescent { ew_local, .. } = &a.tr[q] else { continue };
        for (ew, ent, has) in ew_local.iter() {
            let Some(inst) = a.insts.iter().position(|i| i.kind == SysKindTag::EntityWorldReactor(*ew)) else { continue };
            let alive = a.ent_alive_at(q, *ent) == Some(true);
            let regs = a.regs.iter().filter(|r| r.inst == inst && r.trig.entity() == Some(*ent) && r.live_at(q)).count();
            let want = alive && regs > 0;
            if *has != want && (alive || *has) {
                v.push(Violation::new(
                    "C16",
                    if *has { "C16/local-data-kept-without-triggers" } else { "C16/local-data-removed-with-triggers-left" },
                    format!("op {}: entity {ent} has local data for reactor {ew}: {has}; {regs} of its triggers are registered", o.op),
                    q,
                ));
            }
        }
    }
    (v, cov)
}
