//! C08: every removal and despawn is reacted to exactly once.

use std::collections::BTreeMap;

use super::*;
use crate::analysis::*;
use crate::dispatch::*;
use crate::trace::*;
use crate::types::*;

fn op_skipped(a: &Analysis, op: usize) -> bool {
    matches!(&a.panicked, Some((p, _)) if *p == op) || a.ops.get(op).map(|o| o.quiescent.is_none()).unwrap_or(true)
}

/// (op index, tight deadline, loose deadline) for a cause at position `p`.
fn deadlines(a: &Analysis, p: usize) -> Option<(usize, usize, usize)> {
    let o = a.op_of_pos(p)?;
    let poll_end = o.poll_end?;
    let end = o.end?;
    let in_tree = a.runner_depth.get(p).copied().unwrap_or(0) > 0;
    let tight = if p < end && in_tree { end } else { poll_end };
    Some((o.op, tight, poll_end))
}

/// A polled (removal / despawn) reaction count that is outside its expected range.
#[derive(Clone, Debug)]
pub struct PolledDisc {
    pub op: usize,
    pub inst: Inst,
    pub key: Key,
    /// "removal" | "despawn"
    pub what: &'static str,
    /// "missed" | "duplicate" | "unexpected"
    pub class: &'static str,
    pub msg: String,
    pub pos: usize,
}

type ExpMap = BTreeMap<(usize, Inst, Key), (u32, u32, usize)>;
type ObsMap = BTreeMap<(usize, Inst, Key), (u32, usize)>;

fn compare(a: &Analysis, exp: &ExpMap, obs: &ObsMap) -> Vec<PolledDisc> {
    let mut out = vec![];
    for ((op, inst, key), (lo, hi, pos)) in exp.iter() {
        let o = obs.get(&(*op, *inst, *key)).map(|x| x.0).unwrap_or(0);
        let what = if matches!(key, Key::Desp(_)) { "despawn" } else { "removal" };
        if o < *lo {
            out.push(PolledDisc {
                op: *op,
                inst: *inst,
                key: *key,
                what,
                class: "missed",
                msg: format!("op {op}: instance {inst} reacted {o}x to {:?}, expected at least {lo} (at most {hi}) by the deadline", key),
                pos: *pos,
            });
        } else if o > *hi {
            out.push(PolledDisc {
                op: *op,
                inst: *inst,
                key: *key,
                what,
                class: "duplicate",
                msg: format!("op {op}: instance {inst} reacted {o}x to {:?}, expected at most {hi}", key),
                pos: *pos,
            });
        }
    }
    for ((op, inst, key), (o, pos)) in obs.iter() {
        if op_skipped(a, *op) || exp.contains_key(&(*op, *inst, *key)) {
            continue;
        }
        let what = if matches!(key, Key::Desp(_)) { "despawn" } else { "removal" };
        out.push(PolledDisc {
            op: *op,
            inst: *inst,
            key: *key,
            what,
            class: "unexpected",
            msg: format!("op {op}: instance {inst} reacted {o}x to {:?} without a registration live for it", key),
            pos: *pos,
        });
    }
    out
}

/// The discrepancies of polled reactions only (used by the monitors of other properties for the instances they own).
pub fn polled_discrepancies(cx: &Ctx) -> Vec<PolledDisc> {
    let (exp, obs, _, _) = expectations(cx);
    compare(cx.a, &exp, &obs)
}

pub fn c08(cx: &Ctx) -> (Vec<Violation>, Cover) {
    let a = cx.a;
    let (exp, obs, mut v, cov) = expectations(cx);
    for d in compare(a, &exp, &obs) {
        v.push(Violation::new("C08", format!("C08/{}/{}", d.what, d.class), d.msg.clone(), d.pos));
    }
    (v, cov)
}

fn expectations(cx: &Ctx) -> (ExpMap, ObsMap, Vec<Violation>, Cover) {
    let a = cx.a;
    let mut v = vec![];
    let mut cov = Cover::default();
    // expected runs per (op, inst, key)
    let mut exp: BTreeMap<(usize, Inst, Key), (u32, u32, usize)> = BTreeMap::new();
    let mut per_poll: BTreeMap<(usize, u64, u8), u32> = BTreeMap::new();
    for r in a.removals.iter() {
        cov.relevant = true;
        cov.count(if r.by_despawn { "removals_by_despawn" } else { "removals" }, 1);
        if a.runner_depth.get(r.pos).copied().unwrap_or(0) >= 2 {
            cov.nontrivial = true;
            cov.count("causes_inside_nested_reaction", 1);
        }
        if a.runner_depth.get(r.pos).copied().unwrap_or(0) == 0 {
            cov.count("causes_outside_tree", 1);
        }
        let Some(ts) = a.tracked_since[r.comp as usize] else { continue };
        let p = r.pos.max(ts);
        let Some((op, tight, loose)) = deadlines(a, p) else { continue };
        if op_skipped(a, op) {
            continue;
        }
        *per_poll.entry((op, r.ent, r.comp)).or_insert(0) += 1;
        let key = Key::Rem(r.comp, r.ent);
        for reg in a.regs.iter() {
            let m = match reg.trig {
                RTrig::Rem(c) => c == r.comp,
                RTrig::ERem(e, c) => c == r.comp && e == r.ent && !r.by_despawn,
                _ => false,
            };
            if !m || !reg.live_sometime(p, loose) {
                continue;
            }
            let e = exp.entry((op, reg.inst, key)).or_insert((0, 0, r.pos));
            e.1 += 1;
            if reg.certain && reg.live_throughout(p, tight) && r.pos >= ts && a.alive_at_poll_end(op, reg.inst) {
                e.0 += 1;
            }
        }
    }
    if per_poll.values().any(|n| *n >= 2) {
        cov.nontrivial = true;
        cov.count("repeated_removal_between_polls", 1);
    }
    for d in a.deaths.iter() {
        let regs: Vec<&Reg> = a.regs.iter().filter(|r| r.trig == RTrig::Desp(d.ent) && r.fired == Some(d.pos)).collect();
        if regs.is_empty() {
            continue;
        }
        cov.relevant = true;
        cov.count("despawns_with_reactors", 1);
        if regs.len() >= 2 {
            cov.nontrivial = true;
            cov.count("despawns_with_2plus_reactors", 1);
        }
        if a.runner_depth.get(d.pos).copied().unwrap_or(0) >= 2 {
            cov.nontrivial = true;
        }
        let Some((op, tight, _)) = deadlines(a, d.pos) else { continue };
        if op_skipped(a, op) {
            continue;
        }
        for reg in regs {
            let e = exp.entry((op, reg.inst, Key::Desp(d.ent))).or_insert((0, 0, d.pos));
            e.1 += 1;
            let revoked = matches!(reg.end, Some((p, EndWhy::Revoked)) if p < tight);
            // A scheduled despawn reaction owns a handle of a ref-counted reactor: such a reactor cannot legitimately be
            // gone before it has run the reaction, so the run is owed even if the reactor no longer exists when the
            // tree ends (C07h: collected while the reaction was pending). One-off reactors go after their first run.
            let kept_by_reaction = a.insts[reg.inst].kind == SysKindTag::Reactor && a.is_refcounted(reg.inst) && a.insts[reg.inst].explicit_despawn.is_none();
            if reg.certain && !revoked && (a.alive_at_poll_end(op, reg.inst) || kept_by_reaction) {
                e.0 += 1;
            }
        }
    }
    // observed
    let mut obs: BTreeMap<(usize, Inst, Key), (u32, usize)> = BTreeMap::new();
    for r in a.runs.iter() {
        for k in keys_of_obs(&r.obs) {
            if !matches!(k, Key::Rem(..) | Key::Desp(_)) {
                continue;
            }
            let e = obs.entry((r.op, r.inst, k)).or_insert((0, r.pos));
            e.0 += 1;
            // the entity must be gone / the component must have been removed
            match k {
                Key::Desp(e) => {
                    if !a.deaths.iter().any(|d| d.ent == e && d.pos < r.pos) {
                        v.push(Violation::new("C08", "C08/despawn-reaction-for-living-entity", format!("run {} reacts to the despawn of {e}, which was not despawned", r.run), r.pos));
                    }
                }
                Key::Rem(c, e) => {
                    if !a.removals.iter().any(|x| x.ent == e && x.comp == c && x.pos < r.pos) {
                        v.push(Violation::new("C08", "C08/removal-reaction-without-removal", format!("run {} reacts to a removal of component {c} from {e} that never happened", r.run), r.pos));
                    }
                }
                _ => {}
            }
        }
    }
    (exp, obs, v, cov)
}
