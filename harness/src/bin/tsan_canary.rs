//! Deliberately racy program: proves that the ThreadSanitizer stage is not deaf. Exits 0; TSan must report a race.
use std::thread;

struct Shared(*mut u64);
unsafe impl Send for Shared {}

fn main() {
    let b = Box::into_raw(Box::new(0u64));
    let a1 = Shared(b);
    let a2 = Shared(b);
    let t1 = thread::spawn(move || {
        let a = a1;
        for _ in 0..10_000 {
            unsafe { *a.0 += 1 }
        }
    });
    let t2 = thread::spawn(move || {
        let a = a2;
        for _ in 0..10_000 {
            unsafe { *a.0 += 1 }
        }
    });
    t1.join().unwrap();
    t2.join().unwrap();
    println!("{}", unsafe { *b });
}
