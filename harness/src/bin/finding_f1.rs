//! Stand-alone reproduction of known finding F1 (C16): `EntityLocal` panics in a reaction that was already
//! scheduled (postponed because the entity world reactor was executing) when the entity's triggers are removed
//! before the postponed reaction runs. Uses only the public API of bevy_cobweb.
//!
//! Variant `despawn`: the entity is despawned instead (same panic).
use bevy::prelude::*;
use bevy_cobweb::prelude::*;

struct Ping;

struct MyReactor;
impl EntityWorldReactor for MyReactor {
    type Triggers = EntityEventTrigger<Ping>;
    type Local = u32;
    fn reactor(self) -> SystemCommandCallback {
        SystemCommandCallback::new(
            |mut n: Local<u32>, data: EntityLocal<MyReactor>, mut c: Commands, r: Res<Variant>| {
                *n += 1;
                let (entity, value) = data.get(); // panics in the second run
                println!("run {} for {:?}: local data {}", *n, entity, value);
                if *n == 1 {
                    // While this reactor is executing, send the same entity another event (it is postponed) ...
                    c.react().entity_event(entity, Ping);
                    // ... and then remove the entity's triggers (or despawn it) before the postponed reaction runs.
                    if r.0 {
                        c.entity(entity).despawn();
                    } else {
                        c.syscall(entity, |In(e): In<Entity>, mut c: Commands, reactor: EntityReactor<MyReactor>| {
                            reactor.remove(&mut c, entity_event::<Ping>(e));
                        });
                    }
                }
            },
        )
    }
}

#[derive(Resource)]
struct Variant(bool);

fn main() {
    let despawn = std::env::args().any(|a| a == "despawn");
    let mut app = App::new();
    app.add_plugins(ReactPlugin).add_entity_reactor(MyReactor).insert_resource(Variant(despawn));
    let world = app.world_mut();
    let e = world.spawn_empty().id();
    world.syscall(e, |In(e): In<Entity>, mut c: Commands, reactor: EntityReactor<MyReactor>| {
        reactor.add(&mut c, e, 7);
    });
    let r = std::panic::catch_unwind(std::panic::AssertUnwindSafe(|| world.entity_event(e, Ping)));
    match r {
        Ok(()) => println!("no panic"),
        Err(_) => {
            println!("PANICKED: the already scheduled reaction could not read its EntityLocal");
            std::process::exit(1);
        }
    }
}
